"""C49 -- mitmdump output cannot inject terminal control sequences.

Monitor (differential at the output boundary of the real addon): a real ``mitmproxy.addons.dumper.Dumper`` writes to
a StringIO inside a real ``taddons.context``.  Every hook the dumper implements (response, error, http_connect_error,
websocket_message, websocket_end, tcp_message/error, udp_message/error, dns_response, dns_error) is called with flows
of the matching type whose attacker-controlled fields carry terminal attack payloads (OSC title, CSI clear-screen,
RIS, BEL, BS, DEL, NUL and their 8-bit C1 forms U+009B/U+009D/U+0090/U+0085, plus an SGR with parameters the dumper
never uses).  The oracle is a plain scan of the text written: after removing -- in styled mode only -- the exact SGR
sequences the dumper itself can emit (``ESC [ n m`` with n in {0,1,2,5,25,31..35,94}), no code point of Unicode
category Cc other than TAB/LF/CR may remain.  DNS flows are unpacked from wire bytes built by the private reference
encoder (vf/ref/c50_dns.py), so their names/records are values the real parser produces from traffic.  An end-to-end leg feeds
hostile HTTP/1 request and response heads (control bytes in every start-line token, incl. the version token, and in header
names/values) through the real parser (net.http.http1.read) and prints the resulting flows / protocol-error flows.  A terminal-log
leg covers the other text mitmdump writes: ClientHellos with hostile SNI (incl. IPv6 literals with a hostile scope id) go through
the real mitmproxy.tls.ClientHello, the real ClientTLSLayer.on_handshake_error and the real TermLogHandler.
"""
import io
import re
import unicodedata

from mitmproxy import dns as mdns
from mitmproxy import flow as mflow
from mitmproxy import http
from mitmproxy import tcp
from mitmproxy import udp
from mitmproxy import websocket
from mitmproxy.addons import dumper
from mitmproxy.test import taddons
from mitmproxy.test import tflow
from vf.core import exc_site
from vf.core import short
from vf.gen.c50_timeout import Hang
from vf.gen.c50_timeout import guard
from vf.ref import c50_dns as rdns
from wsproto.frame_protocol import Opcode

PROPERTY = "C49"
LEVEL = "exploration"
ENGINE = "direct"
TECHNIQUE = "output-stream scan of the real Dumper addon under hostile flows"
BUDGET = {"quick": (2000, 13), "thorough": (120_000, 200)}
WORKERS = {"quick": 2, "thorough": 16}
REQUIRED = ["no_control_chars", "fields_rendered", "wire_flows", "termlog_lines"]
RULE = (
    "case = (flow type, dumper hook, set of attacker fields carrying a payload, flow_detail 1-4, showhost, styled on/off, "
    "default content view, body structure); payload = benign text + >=1 C0/ESC/DEL attack sequence (+ >=1 C1 sequence where "
    "the field can hold one), each followed by a per-field ASCII marker; distinct = distinct (hook, fields that were actually "
    "rendered, detail, styled, showhost, body kind) tuple; non-trivial = the marker of at least one poisoned field appears in "
    "the text the dumper wrote (the poisoned field was really rendered)"
)
ASSUMPTIONS = [
    "'the text mitmdump writes' = the Dumper's flow output and the terminal log (TermLog); the property names TLS names and error messages, which only the terminal log prints",
    "control character = Unicode general category Cc (C0, DEL, C1) other than TAB/LF/CR",
    "styling added by mitmdump itself = SGR sequences ESC[<n>m with n in {0,1,2,5,25,31,32,33,34,35,94} (all that miniclick.style can emit for the dumper's style calls); attack payloads never use these",
    "the client peer address is supplied by the OS socket layer and is left benign; every other string the dumper prints (incl. http_version of request and response) is poisoned in hand-built flows",
    "end-to-end leg: hostile HTTP/1 request/response heads are parsed by the real net.http.http1.read functions; accepted heads become the flow, a rejected response head becomes the 'HTTP/1 protocol error: ...' error flow, a rejected request head yields no flow (counted as parser_rejected_input)",
    "flows other than DNS are populated at the flow-model level (the values a parser would store), DNS flows come from DNSMessage.unpack of generated wire bytes",
]
LEVEL_TEXT = (
    "Randomised exploration of (flow type x hook x poisoned field set x detail level x styling x content view). Every write of the "
    "real Dumper is scanned, so a leak in any echo path that the workload reaches is observed directly; assurance is limited to the "
    "fields, payloads and views generated (no proof that no other path exists)."
)
LEVEL_NOTE = "Trusted: Python's unicodedata, io.StringIO, the SGR whitelist derived by reading contrib/click; taddons.context as option host."

OWN_SGR = re.compile(r"\x1b\[(?:0|1|2|5|25|31|32|33|34|35|94)m")
MARK = re.compile(r"~f([a-z]{2})~", re.I)  # request.method is upper-cased by the model

C0_ATOMS = ["\x1b]0;PWN\x07", "\x1b[2J", "\x1b[38;5;201m", "\x07", "\x08\x08", "\x7f", "\x00", "\x0b", "\x0c", "\x1bc", "\x1b[?1049h", "\x0e", "\x1bP1$r\x1b\\", "\x1b[1;1H"]
C1_ATOMS = ["\x9b2J", "\x9d0;PWN\x9c", "\x85", "\x90q\x9c", "\x80", "\x9f", "\x9b38;5;201m", "\x9b?1049h"]
BENIGN = ["", "a", "x y", "ok", "%41", "'", '"', "\\x1b", "\\", "\t", "é", "日本"]

# field id -> readable name
FIELDS = {
    "me": "method", "pa": "path", "ho": "request-host", "hh": "host-header", "qn": "req-header-name", "qv": "req-header-value",
    "qb": "req-body", "qt": "req-trailer", "rr": "resp-reason", "sn": "resp-header-name", "sv": "resp-header-value",
    "sb": "resp-body", "st": "resp-trailer", "er": "error-msg", "wm": "ws-message", "wr": "ws-close-reason",
    "sa": "server-address-host", "pm": "tcp-udp-message", "dq": "dns-question-name", "dt": "dns-answer-txt",
    "dn": "dns-answer-target-name", "dh": "dns-answer-https", "do": "dns-answer-other", "da": "dns-answer-owner-name",
    "qh": "req-http-version", "sh": "resp-http-version",
    # end-to-end leg: tokens of hostile HTTP/1 heads that went through the real parser (net.http.http1.read)
    "xm": "wire-method", "xp": "wire-target", "xv": "wire-req-version", "xn": "wire-req-header-name", "xu": "wire-req-header-value",
    "ts": "tls-sni",
    "yv": "wire-resp-version", "yr": "wire-reason", "yn": "wire-resp-header-name", "yu": "wire-resp-header-value", "ye": "wire-parse-error",
}


def payload(r, fid, c1=True, maxlen=None, ascii_only=False):
    mark = f"~f{fid}~"
    parts = [r.choice(BENIGN)]
    n0 = r.randint(1, 2)
    n1 = r.randint(1, 2) if c1 else 0
    atoms = [r.choice(C0_ATOMS) for _ in range(n0)] + [r.choice(C1_ATOMS) for _ in range(n1)]
    r.shuffle(atoms)
    for a in atoms:
        parts.append(a + mark)
        if r.random() < 0.3:
            parts.append(r.choice(BENIGN))
    s = "".join(parts)
    if ascii_only:
        s = "".join(c for c in s if ord(c) < 128)
    if maxlen and len(s.encode()) > maxlen:
        # keep the first atom + marker
        s = (atoms[0] + mark)
        if ascii_only:
            s = "".join(c for c in s if ord(c) < 128)
    return s


def hostish(r, fid, **kw):
    """host-like payload: sometimes an IPv6 literal whose scope id carries the attack (ipaddress accepts any text there)"""
    p = payload(r, fid, **kw)
    return "fe80::1%" + p.replace(" ", "") if r.random() < 0.35 else p


def pbytes(r, fid, **kw):
    s = payload(r, fid, **kw)
    if r.random() < 0.15:
        return s.encode("latin-1", "replace")  # raw 8-bit C1 bytes (invalid UTF-8)
    return s.encode("utf-8")


# ------------------------------------------------------------------------------------------------
# bodies
# ------------------------------------------------------------------------------------------------

def jstr(s):
    import json

    return json.dumps(s, ensure_ascii=False)


def make_body(r, fid):
    """-> (content-type or None, body bytes, kind)."""
    p = payload(r, fid)
    kind = r.choice(["plain", "none", "json", "json-esc", "html", "css", "js", "form", "xml", "graphql", "multipart", "bin", "msgpack", "protoish"])
    if kind == "plain":
        return "text/plain; charset=utf-8", p.encode(), kind
    if kind == "none":
        return None, p.encode() if r.random() < 0.7 else p.encode("latin-1", "replace"), kind
    if kind == "json":
        # raw control chars inside JSON strings are invalid JSON -> falls back to raw; C1 and DEL are valid raw
        body = '{"k": %s, "%s": [1, true]}' % (jstr("v" + "".join(c for c in p if ord(c) >= 32)), "".join(c for c in p if ord(c) >= 32).replace('"', "").replace("\\", ""))
        return "application/json", body.encode(), kind
    if kind == "json-esc":
        import json

        return "application/json", json.dumps({"k": p, p: [p]}).encode(), kind  # \u001b escapes decoded by the view
    if kind == "html":
        return "text/html", f"<html><body a='{p}'><p>{p}</p><!-- {p} --></body></html>".encode(), kind
    if kind == "xml":
        return "application/xml", f"<?xml version='1.0'?><r a='{p}'><c>{p}</c><![CDATA[{p}]]></r>".encode(), kind
    if kind == "css":
        return "text/css", ("a { content: '%s'; } /* %s */ b{c:d}" % (p, p)).encode(), kind
    if kind == "js":
        return "application/javascript", ("var a = '%s'; // %s\nfunction f(){return 1}" % (p, p)).encode(), kind
    if kind == "form":
        from urllib.parse import quote

        if r.random() < 0.5:
            return "application/x-www-form-urlencoded", f"a={quote(p)}&{quote(p)}=1".encode(), kind
        return "application/x-www-form-urlencoded", f"a={p}&{p}=1".encode(), kind
    if kind == "graphql":
        import json

        return "application/json", json.dumps({"query": "query {\n " + p + "\n}", "variables": {p: p}}).encode(), kind
    if kind == "multipart":
        b = "BOUNDARY"
        body = f'--{b}\r\nContent-Disposition: form-data; name="{p}"\r\n\r\n{p}\r\n--{b}--\r\n'
        return f"multipart/form-data; boundary={b}", body.encode(), kind
    if kind == "msgpack":
        pb = p.encode()[:200]
        if len(pb) < 32:
            body = bytes([0x81, 0xA1, 0x6B, 0xA0 | len(pb)]) + pb
        else:
            body = bytes([0x81, 0xA1, 0x6B, 0xD9, len(pb)]) + pb
        return "application/msgpack", body, kind
    if kind == "protoish":
        pb = p.encode()[:120]
        return "application/x-protobuf", bytes([0x0A, len(pb)]) + pb + bytes([0x10, 0x01]), kind
    return "application/octet-stream", bytes(r.getrandbits(8) for _ in range(r.randint(1, 40))) + p.encode(), "bin"


# ------------------------------------------------------------------------------------------------
# flows
# ------------------------------------------------------------------------------------------------

def pick(r, cands, pmulti=0.25):
    if r.random() < pmulti:
        k = r.randint(2, min(5, len(cands)))
        return set(r.sample(cands, k))
    return {r.choice(cands)}


def poison_http(r, f, fields):
    info = {}
    rq = f.request
    if "me" in fields:
        rq.data.method = pbytes(r, "me")
    if "pa" in fields:
        rq.data.path = b"/p/" + pbytes(r, "pa") + b"?q=1"
    if "ho" in fields:
        h = hostish(r, "ho")
        rq.data.host = h
        rq.data.authority = h.encode("utf-8") if r.random() < 0.5 else b""
    if "hh" in fields:
        rq.headers["host"] = hostish(r, "hh").encode("utf-8")
    if "qn" in fields:
        rq.headers.fields = rq.headers.fields + ((pbytes(r, "qn"), b"v"),)
    if "qv" in fields:
        rq.headers.fields = rq.headers.fields + ((b"x-req", pbytes(r, "qv")),)
    if "qb" in fields:
        ct, body, kind = make_body(r, "qb")
        rq.data.content = body
        if ct:
            rq.headers["content-type"] = ct
        rq.headers["content-length"] = str(len(body))
        info["qb"] = kind
    if "qh" in fields:
        rq.data.http_version = r.choice([b"HTTP/1.1", b"HTTP/2.0", b""]) + pbytes(r, "qh")
    if "qt" in fields:
        rq.trailers = http.Headers([(b"x-trailer", pbytes(r, "qt")), (pbytes(r, "qt"), b"1")])
    rs = f.response
    if rs is not None:
        if "rr" in fields:
            rs.data.reason = pbytes(r, "rr")
        if "sn" in fields:
            rs.headers.fields = rs.headers.fields + ((pbytes(r, "sn"), b"v"),)
        if "sv" in fields:
            rs.headers.fields = rs.headers.fields + ((b"x-resp", pbytes(r, "sv")),)
        if "sb" in fields:
            ct, body, kind = make_body(r, "sb")
            rs.data.content = body
            if ct:
                rs.headers["content-type"] = ct
            rs.headers["content-length"] = str(len(body))
            info["sb"] = kind
        if "sh" in fields:
            rs.data.http_version = r.choice([b"HTTP/1.1", b"HTTP/2.0", b""]) + pbytes(r, "sh")
        if "st" in fields:
            rs.trailers = http.Headers([(b"x-trailer", pbytes(r, "st"))])
    if "er" in fields:
        f.error = mflow.Error(payload(r, "er"))
    if "sa" in fields:
        f.server_conn.address = (hostish(r, "sa"), r.choice([80, 443, 53]))
    return info


def build_http(r):
    hook = r.choice(["response", "response", "error", "http_connect_error"])
    if hook == "response":
        f = tflow.tflow(resp=True)
        cands = ["me", "pa", "ho", "hh", "qn", "qv", "qb", "qt", "rr", "sn", "sv", "sb", "st", "qh", "sh"]
    elif hook == "error":
        f = tflow.tflow(resp=r.random() < 0.3, err=True)
        cands = ["me", "pa", "ho", "hh", "qn", "qv", "qb", "er", "er", "qh"]
    else:
        f = tflow.tflow(resp=True)
        f.request.data.method = b"CONNECT"
        f.response.status_code = r.choice([502, 407, 400, 418])
        cands = ["pa", "ho", "hh", "qv", "rr", "sv", "sb", "qh", "sh"]
    fields = pick(r, cands)
    if r.random() < 0.2:
        v = r.choice([b"HTTP/2.0", b"HTTP/1.0", b"HTTP/3"])
        f.request.data.http_version = v
        if f.response and r.random() < 0.7:
            f.response.data.http_version = v
    if r.random() < 0.1:
        f.is_replay = r.choice(["request", "response"])
    if f.response and r.random() < 0.15:
        f.response.status_code = r.choice([200, 204, 301, 404, 418, 500, 999])
    info = poison_http(r, f, fields)
    return "http", hook, f, fields, info


def build_ws(r):
    hook = r.choice(["websocket_message", "websocket_message", "websocket_end"])
    f = tflow.twebsocketflow()
    cands = ["pa", "sa", "wm", "wm"] if hook == "websocket_message" else ["wr", "wr", "sa"]
    fields = pick(r, cands)
    info = poison_http(r, f, fields & {"pa", "sa"})
    if "wm" in fields:
        is_text = r.random() < 0.6
        if is_text:
            content = payload(r, "wm").encode()
            info["wm"] = "text"
        else:
            _, content, kind = make_body(r, "wm")
            info["wm"] = kind
        f.websocket.messages.append(websocket.WebSocketMessage(Opcode.TEXT if is_text else Opcode.BINARY, r.random() < 0.5, content))
        if r.random() < 0.2:
            f.request.data.path = b"/socket.io/?EIO=4" + f.request.data.path
    if hook == "websocket_end":
        f.websocket.close_code = r.choice([1000, 1001, 1005, 1006, 1002, 1011, 4000, 3000])
        f.websocket.closed_by_client = r.random() < 0.5
        if "wr" in fields:
            f.websocket.close_reason = payload(r, "wr", maxlen=123)
    return "ws", hook, f, fields, info


def build_proto(r):
    kind = r.choice(["tcp", "udp"])
    hook = r.choice(["message", "message", "error"])
    f = tflow.ttcpflow(err=(hook == "error")) if kind == "tcp" else tflow.tudpflow(err=(hook == "error"))
    cands = ["pm", "pm", "sa"] if hook == "message" else ["er", "er", "sa"]
    fields = pick(r, cands)
    info = {}
    if "pm" in fields:
        if r.random() < 0.5:
            content = pbytes(r, "pm")
            info["pm"] = "text"
        else:
            _, content, k = make_body(r, "pm")
            info["pm"] = k
        cls = tcp.TCPMessage if kind == "tcp" else udp.UDPMessage
        f.messages.append(cls(r.random() < 0.5, content))
    if "er" in fields:
        f.error = mflow.Error(payload(r, "er"))
    if "sa" in fields:
        f.server_conn.address = (payload(r, "sa", c1=r.random() < 0.5), r.choice([53, 80, 4433]))
    if r.random() < 0.2:
        f.client_conn.tls_version = "QUICv1"
        f.metadata["quic_stream_id_client"] = r.randint(0, 99)
        f.metadata["quic_stream_id_server"] = r.randint(0, 99)
    return kind, f"{kind}_{hook}", f, fields, info


def dns_name(r, fid):
    labs = []
    if fid:
        p = payload(r, fid, c1=False, maxlen=60, ascii_only=True).encode("ascii")
        p = p.replace(b".", b"")[:63] or b"x"
        labs.append(p)
    labs += r.choice([[b"example", b"com"], [b"evil"], [b"a", b"b", b"c"]])
    return rdns.enc_name(labs)


def build_dns(r):
    hook = r.choice(["dns_response", "dns_response", "dns_error"])
    cands = ["dq", "dt", "dn", "dh", "do", "da"] if hook == "dns_response" else ["dq", "er", "er"]
    fields = pick(r, cands, 0.35)
    qname = dns_name(r, "dq" if "dq" in fields else None)
    qtype = r.choice([1, 28, 16, 5, 12, 65, 255, 99])
    req_wire = rdns.encode(r.getrandbits(16), rdns.flags_word(rd=1), [(qname, qtype, 1)])
    req = mdns.DNSMessage.unpack(req_wire)
    f = tflow.tdnsflow(req=req)
    info = {}
    if hook == "dns_response":
        answers = []
        owner = dns_name(r, "da" if "da" in fields else None)
        if "dt" in fields:
            t = payload(r, "dt").encode()[:250]
            rd = bytes([len(t)]) + t if r.random() < 0.7 else t
            answers.append((owner, 16, 1, 60, rd))
        if "dn" in fields:
            answers.append((owner, r.choice([5, 2, 12]), 1, 60, dns_name(r, "dn")))
        if "dh" in fields:
            alpn = pbytes(r, "dh")[:60]
            rd = b"\x00\x01" + dns_name(r, "dh") + b"\x00\x01" + bytes([0, len(alpn) + 1, len(alpn)]) + alpn
            answers.append((owner, 65, 1, 60, rd))
        if "do" in fields:
            answers.append((owner, r.choice([99, 13, 1, 28, 6]), 1, 60, pbytes(r, "do")[:200]))
        if "da" in fields and not answers:
            answers.append((owner, 1, 1, 60, b"\x01\x02\x03\x04"))
        if not answers and r.random() < 0.5:
            answers.append((owner, 1, 1, 60, b"\x08\x08\x08\x08"))
        resp_wire = rdns.encode(req.id, rdns.flags_word(qr=1, rd=1, ra=1, rcode=0 if answers else r.choice([2, 3, 5])), [(qname, qtype, 1)], answers)
        f.response = mdns.DNSMessage.unpack(resp_wire)
    else:
        f.error = mflow.Error(payload(r, "er") if "er" in fields else "timeout")
    return "dns", hook, f, fields, info


def wtok(r, fid, spaces=False):
    """payload bytes for one token of an HTTP/1 head: no CR/LF (line structure), no whitespace unless allowed."""
    b_ = pbytes(r, fid).replace(b"\r", b"").replace(b"\n", b"")
    if not spaces:
        b_ = bytes(c for c in b_ if c not in b" \t\x0b\x0c\x1c\x1d\x1e\x1f\x85\xa0")
    return b_


def build_wire(r):
    """End-to-end leg: hostile HTTP/1 request / response heads go through the real parser; whatever it accepts becomes the
    flow the dumper prints, whatever it rejects becomes the protocol-error flow the HTTP layer would report."""
    from mitmproxy.net.http.http1 import read as h1read

    fields = set()

    def maybe(fid, plain, p=0.35, **kw):
        if r.random() < p:
            fields.add(fid)
            x = wtok(r, fid, **kw)
            return r.choice([plain + x, x + plain, plain[:4] + x + plain[4:]]) if plain else x
        return plain

    method = maybe("xm", r.choice([b"GET", b"POST", b"OPTIONS"]))
    if r.random() < 0.15:
        fields.add("xp")
        target = b"http://[fe80::1%" + wtok(r, "xp").replace(b"]", b"").replace(b"/", b"") + b"]/a"  # hostile IPv6 scope id in the authority
    else:
        target = r.choice([b"/", b"/path?q=1", b"http://example.com/a", b"http://example.com:8080/"]) + maybe("xp", b"")
    version = maybe("xv", r.choice([b"HTTP/1.1", b"HTTP/1.1", b"HTTP/1.0"]), 0.45)
    req_lines = [method + b" " + target + b" " + version, b"Host: example.com"]
    for _ in range(r.randint(0, 3)):
        req_lines.append(maybe("xn", r.choice([b"X-A", b"User-Agent"]), 0.3) + b": " + maybe("xu", b"v", 0.5, spaces=True))
    resp_lines = [maybe("yv", r.choice([b"HTTP/1.1", b"HTTP/1.0"]), 0.45) + b" " + r.choice([b"200", b"404", b"418", b"999"]) + b" " + maybe("yr", b"OK", 0.5, spaces=True)]
    for _ in range(r.randint(0, 3)):
        resp_lines.append(maybe("yn", r.choice([b"Server", b"X-B"]), 0.3) + b": " + maybe("yu", b"v", 0.5, spaces=True))
    resp_lines.append(b"Content-Length: 0")
    f = tflow.tflow()
    info = {"e2e": "ok"}
    try:
        req = h1read.read_request_head(req_lines)
    except ValueError as e:
        # the HTTP layer answers 400 and logs; no flow reaches the dumper
        raise RuntimeError("request head rejected by the real parser") from e
    req.data.content = b""
    req.timestamp_end = 2.0
    f.request = req
    hook = "response"
    try:
        resp = h1read.read_response_head(resp_lines)
        resp.data.content = b""
        resp.timestamp_end = 4.0
        f.response = resp
    except ValueError as e:
        # what mitmproxy.proxy.layers.http._http1 does with an unparsable response head
        f.response = None
        f.error = mflow.Error(f"HTTP/1 protocol error: {e}")
        fields.add("ye")
        hook = "error"
        info["e2e"] = "resp-rejected"
    return "wire", hook, f, fields, info


TERMLOG_SGR = re.compile(r"\x1b\[(?:0|2|31|33|35|36)m")  # what log.MitmFormatter adds itself: cyan/yellow dim prefix, level colours


def termlog_case(ctx, r, tctx):
    """The other text mitmdump writes: its terminal log.  A ClientHello whose SNI carries the payload is parsed by the real
    mitmproxy.tls.ClientHello; the real ClientTLSLayer.on_handshake_error produces the log command; the real TermLogHandler
    formats it into a StringIO."""
    import logging

    from mitmproxy import tls as mtls
    from mitmproxy.addons import termlog
    from mitmproxy.proxy import commands as pcommands
    from mitmproxy.proxy import context as pcontext
    from mitmproxy.proxy.layers import tls as ltls
    from vf.ref import tlshello
    from vf.sansio import make_client

    fields = set()
    form = r.choice(["scope-id", "scope-id", "plain-hostile", "benign+server-address"])
    if form == "scope-id":
        sni = b"fe80::1%" + payload(r, "ts", c1=r.random() < 0.3, maxlen=200).replace(" ", "").encode("utf-8")
        fields.add("ts")
    elif form == "plain-hostile":
        sni = payload(r, "ts", c1=False, maxlen=200, ascii_only=True).encode()
        fields.add("ts")
    else:
        sni = None
    hello = tlshello.build_client_hello(sni=sni, alpn=[b"h2"] if r.random() < 0.5 else None)
    parsed = mtls.ClientHello(hello[4:])  # real parser decides whether the name is accepted as SNI
    pctx = pcontext.Context(make_client(), tctx.options)
    if form == "benign+server-address" or r.random() < 0.3:
        pctx.server.address = (hostish(r, "sa"), 443)
        fields.add("sa")
    ltls.ServerTLSLayer(pctx)
    lay = ltls.ClientTLSLayer(pctx)
    lay.conn.sni = parsed.sni
    err = r.choice(["('SSL routines', '', 'sslv3 alert bad certificate')", "connection closed", "('SSL routines', '', 'tlsv1 alert unknown ca')", "some other failure", "Cannot parse ClientHello: x"])
    out = io.StringIO()
    styled = r.random() < 0.5
    h = termlog.TermLogHandler(out)
    h.has_vt_codes = styled
    h.formatter = __import__("mitmproxy.log", fromlist=["MitmFormatter"]).MitmFormatter(styled)
    n = 0
    for cmd in lay.on_handshake_error(err):
        if isinstance(cmd, pcommands.Log):
            rec = logging.LogRecord("mitmproxy.proxy.server", cmd.level, __file__, 1, cmd.message, (), None)
            rec.client = ("192.0.2.10", 51234)
            h.emit(rec)
            n += 1
    text = out.getvalue()
    ctx.count("termlog_lines", n)
    ctx.count("no_control_chars")
    stripped = TERMLOG_SGR.sub("", text) if styled else text
    rendered = sorted({m.group(1).lower() for m in MARK.finditer(text)} & fields)
    if rendered:
        ctx.count("fields_rendered", len(rendered))
    by_field = {}
    for m in re.finditer(r"[\x00-\x08\x0b\x0c\x0e-\x1f\x7f-\x9f]", stripped):
        nxt = MARK.search(stripped, m.end(), m.end() + 64)
        fid = nxt.group(1).lower() if nxt else (next(iter(fields)) if len(fields) == 1 else None)
        by_field.setdefault(fid, []).append(m.group(0))
    for fid, chars in by_field.items():
        ctx.violation(
            "control-char-in-terminal-log",
            {"field": FIELDS.get(fid, fid), "sni_sent": sni, "sni_accepted": parsed.sni, "styled": styled, "chars": sorted({f"U+{ord(c):04X}" for c in chars}), "line": short(repr(stripped), 400)},
            mechanism=classify("termlog", fid, chars),
        )
    ctx.seen("hooks", "termlog")
    ctx.case(("termlog", form, parsed.sni is not None, tuple(rendered), styled, err[:12]), nontrivial=bool(rendered), sample={"hook": "termlog", "sni": sni, "accepted": parsed.sni, "out": short(repr(text), 300)})


BUILDERS = [build_wire, build_wire, build_http, build_http, build_http, build_ws, build_ws, build_proto, build_proto, build_dns, build_dns]


def call_hook(d, kind, hook, f):
    getattr(d, hook)(f)


def scan(out: str, styled: bool):
    if styled:
        out = OWN_SGR.sub("", out)
    bad = []
    for m in re.finditer(r"[\x00-\x08\x0b\x0c\x0e-\x1f\x7f-\x9f]", out):
        ch = m.group(0)
        assert unicodedata.category(ch) == "Cc"
        nxt = MARK.search(out, m.end(), m.end() + 64)
        if nxt is None:  # marker cut off (URL truncation at flow_detail 1): take the closest marker before the character
            prev = list(MARK.finditer(out, max(0, m.start() - 64), m.start()))
            nxt = prev[-1] if prev else None
        bad.append((m.start(), ch, nxt.group(1).lower() if nxt else None))
    return out, bad


def classify(hook, fid, leaked_chars):
    """Mechanism from the input/history: which poisoned field leaked in which hook, and whether only the 8-bit C1 forms got
    through (the same field's C0/ESC/DEL sequences having been neutralised) or the field is echoed without any escaping."""
    if all(0x80 <= ord(c) <= 0x9F for c in leaked_chars):
        return "c1-control-passes-escape_control_characters"
    if fid is None or fid not in FIELDS:
        return None
    return f"unescaped:{hook}:{FIELDS[fid]}"


def run(ctx):
    d = dumper.Dumper(io.StringIO())
    views = None
    with taddons.context(d) as tctx:
        from mitmproxy import contentviews

        views = contentviews.registry.available_views()
        for i in ctx.cases():
            r = ctx.rng
            if r.random() < 0.08:
                termlog_case(ctx, r, tctx)
                continue
            try:
                kind, hook, f, fields, info = r.choice(BUILDERS)(r)
            except Exception as e:  # generator could not build (DNS name / HTTP head the real parser rejects): not a case
                ctx.count("parser_rejected_input")
                ctx.case(("rejected", type(e).__name__), nontrivial=False)
                continue
            detail = r.choice([1, 2, 3, 3, 4, 4])
            styled = r.random() < 0.5
            showhost = r.random() < 0.5
            view = "auto" if r.random() < 0.6 else r.choice(views)
            tctx.configure(d, flow_detail=detail, showhost=showhost, dumper_default_contentview=view, content_view_lines_cutoff=r.choice([1, 3, 512]))
            d.out_has_vt_codes = styled
            d.outfp = io.StringIO()
            try:
                with guard():
                    call_hook(d, kind, hook, f)
            except Hang as h:
                # a content view that never returns is C50's subject; here it only must not stall the run
                ctx.count("hook_blocked")
                ctx.seen("hook_exception_sites", f"Hang:{h.kind}@{next((x for x in h.frames if '/mitmproxy/' in x), '?').split('/mitmproxy/')[-1]}")
            except Exception as e:
                # a crashing hook is not what C49 states (it is about the text written); recorded as evidence only
                ctx.count("hook_raised")
                ctx.seen("hook_exception_sites", f"{type(e).__name__}@{exc_site(e)}")
            out = d.outfp.getvalue()
            ctx.count("hook_calls")
            if kind == "wire":
                ctx.count("wire_flows")
            stripped, bad = scan(out, styled)
            ctx.count("no_control_chars")
            rendered = sorted({m.group(1).lower() for m in MARK.finditer(out)} & fields)
            if rendered:
                ctx.count("fields_rendered", len(rendered))
            if bad:
                by_field = {}
                for pos, ch, fid in bad:
                    if fid is None and len(fields) == 1:
                        fid = next(iter(fields))
                    by_field.setdefault(fid, []).append((pos, ch))
                for fid, lst in by_field.items():
                    chars = [c for _, c in lst]
                    p0 = lst[0][0]
                    ctx.violation(
                        "control-char-in-output",
                        {
                            "hook": hook,
                            "field": FIELDS.get(fid, fid),
                            "flow_detail": detail,
                            "styled": styled,
                            "showhost": showhost,
                            "view": view,
                            "chars": sorted({f"U+{ord(c):04X}" for c in chars}),
                            "context": repr(stripped[max(0, p0 - 60) : p0 + 40]),
                        },
                        mechanism=classify(hook, fid, chars),
                    )
            ctx.seen("hooks", hook)
            sig = (hook, tuple(rendered), detail, styled, showhost, tuple(sorted(info.values())), view if view in ("auto", "raw") else "explicit")
            ctx.case(sig, nontrivial=bool(rendered), sample={"hook": hook, "poisoned": sorted(FIELDS[x] for x in fields), "detail": detail, "styled": styled, "view": view, "out": short(repr(out), 400)})
