"""C30 -- QUIC streams are demultiplexed onto correctly paired streams.

Engine A (dedicated loop): a real RawQuicLayer -- force_raw=True in half of the cases, otherwise force_raw=False with a
next_layer policy that picks TCPLayer/UDPLayer at the n-th ask per stream (n in 1..3 = late decision, or never: the hook
returns without a layer) -- is driven directly through handle_event with random
interleavings of QuicStreamDataReceived (with/without end_stream, empty FIN), QuicStreamReset, QuicConnectionClosed and
datagrams from both sides over 1-10 streams of all four RFC 9000 classes (bidi/uni x client/server-initiated, ids with
gaps and out of order); the tcp_*/udp_* hooks of the per-stream layers complete in a random order, possibly much later
(so stream events queue behind pending hooks).  The far peer is reactive: it answers on a stream only after a command
addressed to that stream id has been emitted (it cannot know the id mitmproxy allocates before).  Every payload chunk
carries a unique tag naming the connection and stream it was received on.

Monitor (M2 at the command boundary, oracle vf/ref/c30_quicdemux.py, independent, RFC 9000 2.1 id arithmetic):
  route.data   every tagged chunk in a SendQuicStreamData goes to the opposite connection, always to the same stream
               id for the same source stream, never to a stream id used by another source stream, and the reverse
               direction uses the same pairing (bijection client stream <-> server stream)
  route.class  paired stream ids agree in directionality (bit 1) and initiator (bit 0); ids mitmproxy opens itself are
               of the class it may open on that connection and are never shared; commands on peer-initiated ids only for
               streams that peer opened
  route.term   FIN (end_stream), ResetQuicStream (same error code) and StopSendingQuicStream are only emitted for a stream
               whose pair received a terminating signal (or after a connection close), never for an unrelated stream
               (a RESET is never accepted on the stream it came from; FIN+STOP_SENDING back to the terminating side is accepted
               only as the abort of a stream whose next layer was still undecided)
  crash        no exception escapes handle_event, except the separately reported close_stream_layer assertion when a QUIC
               connection closes while a stream's other side is not opened yet
  dgram        datagrams are relayed as datagrams to the other side, stream data never as datagrams
"""
from mitmproxy.connection import ConnectionState
from mitmproxy.proxy import commands, events
from mitmproxy.proxy.context import Context
from mitmproxy.proxy.layers.quic import _commands as qc
from mitmproxy.proxy.layers.quic import _events as qe
from mitmproxy.proxy.layers.quic._raw_layers import RawQuicLayer
from mitmproxy.proxy.layers.tcp import TCPLayer
from mitmproxy.proxy.layers.udp import UDPLayer

from vf import sansio
from vf.core import exc_site
from vf.ref import c30_quicdemux as ref

PROPERTY = "C30"
LEVEL = "exploration"
ENGINE = "sansio"
BUDGET = {"quick": (1500, 16), "thorough": (50000, 200)}
WORKERS = {"quick": 4, "thorough": 16}
REQUIRED = ["route.data", "route.class", "route.term", "pairs", "allocations", "fin_out", "reset_out", "stop_out", "events_behind_pending_hook", "no_handler_crash", "late_events_after_fin", "nextlayer_cases", "next_layer_left_undecided", "next_layer_decided_late", "reset_on_undecided_stream"]
TECHNIQUE = "runtime monitoring: random interleaving of QUIC stream events on the real RawQuicLayer + tag-based routing oracle on the command log"
RULE = (
    "case = 1-10 streams (class bidi/uni x client/server-initiated, index 0-6 so ids have gaps and arrive out of order), per stream and direction "
    "0-3 tagged chunks (optionally preceded by an empty STREAM frame) then FIN-with-data / empty FIN / RESET (also as the first event) / left open, "
    "late RESET / repeated FIN on a stream whose direction already ended with FIN (also after the whole stream is finished), "
    "force_raw or next_layer policy deciding at the 1st-3rd ask or never, reactive responder scripts for bidi streams, 0-3 datagrams, optional "
    "QuicConnectionClosed from either/both sides at a random point, hooks completing late with random probability, random interleaving; signature = "
    "(multiset of stream classes, termination kinds used, #pairs class, conn-close pattern, hook-delay class, events-queued-behind-hook flag); "
    "non-trivial iff >=2 streams relayed data (>=2 pairs established) or >=1 pair plus a reset/connection close"
)
ASSUMPTIONS = [
    "peers are protocol-conformant: per stream and direction data* then at most one FIN or RESET, nothing on a uni stream from its receiver, the far peer uses a stream id only after mitmproxy used it",
    "QuicStreamStopSending events are not part of the property's quantifier and are not generated",
    "in next-layer mode a stream whose layer is still undecided when its own side ends it is shut down on that side by mitmproxy itself (FIN + STOP_SENDING): accepted as not being a relayed signal; a RESET towards the originating stream never is",
    "the property is about routing (which stream a signal reaches), not about completeness of delivery (C29 covers the per-stream relay)",
    "connection state is set to CLOSED when QuicConnectionClosed is delivered / CloseQuicConnection is issued, as ConnectionHandler does for a UDP transport",
]
LEVEL_TEXT = (
    "Exploration: thousands of random interleavings of stream data / FIN / RESET / connection-close events over all four stream classes are run "
    "through the real RawQuicLayer with hooks completing out of order; an independent checker attributes every emitted payload and terminating "
    "signal to the stream it entered on by unique tags and RFC 9000 id arithmetic. Decides the executions observed."
)
LEVEL_NOTE = "Trusted: vf/ref/c30_quicdemux.py and the small event loop in this file (hook/open completion, reactive far peer)."

OTHER = {"c": "s", "s": "c"}


class QuicLoop:
    def __init__(self, opts, rng, force_raw=True, never_decide=0.3):
        self.rng = rng
        self.force_raw = force_raw
        self.never_decide = never_decide
        self.current = None  # what is being fed: ("stream", side, sid) | ("dgram",) | None
        self.hook_owner = {}  # id(hook command) -> self.current at the time it was started
        self.nl = {}  # id(NextLayer) -> dict(nl, asks, need, keys)
        self.decided_keys = set()
        self.client = sansio.make_client("regular", transport="udp")
        self.ctx = Context(self.client, opts)
        self.server = self.ctx.server
        self.server.address = ("example.com", 443)
        self.server.transport_protocol = "udp"
        self.layer = RawQuicLayer(self.ctx, force_raw=force_raw)
        self.trace = []
        self.pending = []  # blocking commands awaiting completion
        self.exceptions = []
        self.hooks = []
        self.known = {"c": [], "s": []}  # stream ids the far peer on that side has learned from commands (in order)
        self.queued_behind_hook = 0
        self.unexpected = []

    def conn(self, side):
        return self.client if side == "c" else self.server

    def side(self, conn):
        if conn is self.client:
            return "c"
        if conn is self.server:
            return "s"
        return None

    def feed(self, ev):
        try:
            for cmd in self.layer.handle_event(ev):
                self.command(cmd)
        except Exception as e:  # noqa
            import traceback

            self.exceptions.append((type(e).__name__, exc_site(e), traceback.format_exc()[-800:], type(ev).__name__))

    def learn(self, side, sid):
        if sid not in self.known[side]:
            self.known[side].append(sid)

    def command(self, cmd):
        if isinstance(cmd, qc.SendQuicStreamData):
            s = self.side(cmd.connection)
            self.trace.append(("out", "send", s, cmd.stream_id, bytes(cmd.data), bool(cmd.end_stream)))
            self.learn(s, cmd.stream_id)
        elif isinstance(cmd, qc.ResetQuicStream):
            s = self.side(cmd.connection)
            self.trace.append(("out", "reset", s, cmd.stream_id, cmd.error_code))
            self.learn(s, cmd.stream_id)
        elif isinstance(cmd, qc.StopSendingQuicStream):
            s = self.side(cmd.connection)
            self.trace.append(("out", "stop", s, cmd.stream_id, cmd.error_code))
            self.learn(s, cmd.stream_id)
        elif isinstance(cmd, qc.CloseQuicConnection):
            s = self.side(cmd.connection)
            self.trace.append(("out", "closeconn", s, cmd.error_code))
            cmd.connection.state = ConnectionState.CLOSED
        elif isinstance(cmd, commands.CloseConnection):
            s = self.side(cmd.connection)
            self.trace.append(("out", "closeconn", s, None))
            if s is not None:
                cmd.connection.state = ConnectionState.CLOSED
        elif isinstance(cmd, commands.SendData):
            s = self.side(cmd.connection)
            if s is None:
                self.unexpected.append(repr(cmd)[:120])
            else:
                self.trace.append(("out", "dgram", s, bytes(cmd.data)))
        elif isinstance(cmd, (commands.StartHook, commands.OpenConnection)):
            self.pending.append(cmd)
            if isinstance(cmd, commands.StartHook):
                self.hooks.append(cmd.name)
                self.hook_owner[id(cmd)] = self.current
                if cmd.name == "next_layer":
                    nl = cmd.data
                    rec = self.nl.setdefault(id(nl), {"nl": nl, "asks": 0, "need": 99 if self.rng.random() < self.never_decide else self.rng.choice([1, 1, 1, 2, 3]), "keys": set()})
                    if self.current and self.current[0] == "stream":
                        rec["keys"].add(self.current[1:])
        elif isinstance(cmd, commands.Log):
            pass
        else:
            self.unexpected.append(repr(cmd)[:120])

    def complete(self, cmd, open_err=None):
        self.pending.remove(cmd)
        if isinstance(cmd, commands.OpenConnection):
            if open_err is None:
                cmd.connection.state = ConnectionState.OPEN
                cmd.connection.timestamp_start = 2.0
            self.feed(events.OpenConnectionCompleted(cmd, open_err))
        else:
            self.current = self.hook_owner.pop(id(cmd), None)
            if cmd.name == "next_layer":
                # next_layer addon policy: decide at the n-th ask for this stream (n may be 'never': hook returns without a layer)
                rec = self.nl[id(cmd.data)]
                rec["asks"] += 1
                if rec["asks"] >= rec["need"] and cmd.data.layer is None:
                    nl = cmd.data
                    nl.layer = UDPLayer(nl.context) if nl.context.client is self.client else TCPLayer(nl.context)
                    self.decided_keys |= rec["keys"]
                    self.trace.append(("in", "decided", sorted(rec["keys"])))
            self.feed(events.HookCompleted(cmd))


def gen_script(r, allow_empty=True, reset_bias=False):
    n = r.choice([0, 0, 1, 1, 2] if reset_bias else [0, 1, 1, 2, 3])
    ending = r.choice(["fin_data", "fin_empty", "reset", "reset", "reset", "open"] if reset_bias else ["fin_data", "fin_empty", "reset", "open", "open"])
    if n == 0 and ending == "fin_data":
        ending = "fin_empty"
    if n == 0 and ending == "open" and not allow_empty:
        n = 1
    acts = [["data", False] for _ in range(n)]
    if ending == "fin_data":
        acts[-1][1] = True
    elif ending == "fin_empty":
        acts.append(["fin"])
    elif ending == "reset":
        acts.append(["reset"])
    if r.random() < (0.3 if reset_bias else 0.1):
        acts.insert(0, ["data_empty"])  # a STREAM frame without data and without FIN opens the stream
    return acts, ending


def run_case(ctx, opts):
    r = ctx.rng
    force_raw = r.random() < 0.5
    reset_bias = (not force_raw) and r.random() < 0.6
    L = QuicLoop(opts, r, force_raw, never_decide=r.choice([0.0, 0.3, 0.6, 1.0]))
    # ---- plan
    n_streams = r.choice([1, 2, 2, 3, 4, 5, 6, 8, 10])
    streams = {}  # (side, sid) -> remaining actions  (initiator scripts)
    classes = []
    for _ in range(n_streams):
        init = r.choice("ccs")
        uni = r.random() < 0.4
        sid = 4 * r.randint(0, 6) + (1 if init == "s" else 0) + (2 if uni else 0)
        if (init, sid) in streams:
            continue
        acts, ending = gen_script(r, allow_empty=False, reset_bias=reset_bias)
        streams[(init, sid)] = acts
        classes.append(("uni" if uni else "bidi") + "-" + init)
    responder_scripts = {"c": [], "s": []}  # scripts the far peer on that side runs on bidi streams it learns about
    for side in "cs":
        for _ in range(6):
            responder_scripts[side].append(gen_script(r, reset_bias=reset_bias)[0])
    resp_active = {}  # (side, sid) -> remaining actions
    seq = {}
    dgrams = [(r.choice("cs"), k) for k in range(r.choice([0, 0, 1, 3]))]
    close_plan = r.choice(["none", "none", "c", "s", "c-then-s", "s-then-c"])
    close_at = r.randint(0, 25)
    hook_delay = r.choice([0.0, 0.3, 0.7, 0.95])
    closed_fed = set()
    reset_code = [100]
    ended_in = set()  # (side, sid) whose sending direction is finished (no more input events allowed)
    kinds_used = set()
    undecided_resets = [0]
    late_prob = r.choice([0.0, 0.1, 0.3])
    ended_by_fin = []  # keys that ended their direction with a FIN: a RESET_STREAM (or a retransmitted FIN) may still follow
    late_done = set()
    steps = 0

    def emit(side, sid, act):
        key = (side, sid)
        L.current = ("stream", side, sid)
        if any(not isinstance(c, commands.OpenConnection) for c in L.pending):
            L.queued_behind_hook += 1
        if act[0] == "data_empty":
            L.trace.append(("in", "data", side, sid, b"", False))
            kinds_used.add("data_empty")
            L.feed(qe.QuicStreamDataReceived(L.conn(side), sid, b"", False))
        elif act[0] == "data":
            k = seq.get(key, 0)
            seq[key] = k + 1
            payload = b"<%s%d.%d>" % (side.encode(), sid, k) + bytes(r.getrandbits(8) & 0x7F | 0x80 for _ in range(r.choice([0, 0, 5, 40])))
            fin = act[1]
            L.trace.append(("in", "data", side, sid, payload, fin))
            if fin:
                ended_in.add(key)
                ended_by_fin.append(key)
                kinds_used.add("fin_data")
            L.feed(qe.QuicStreamDataReceived(L.conn(side), sid, payload, fin))
        elif act[0] == "fin":
            L.trace.append(("in", "data", side, sid, b"", True))
            if key not in ended_in:
                ended_by_fin.append(key)
            ended_in.add(key)
            kinds_used.add("fin_empty")
            L.feed(qe.QuicStreamDataReceived(L.conn(side), sid, b"", True))
        elif act[0] == "reset":
            reset_code[0] += 1
            L.trace.append(("in", "reset", side, sid, reset_code[0]))
            ended_in.add(key)
            kinds_used.add("reset")
            if not force_raw and key not in L.decided_keys:
                undecided_resets[0] += 1
            L.feed(qe.QuicStreamReset(L.conn(side), sid, reset_code[0]))

    def late(key):
        """an event on a stream whose direction already ended with FIN: RESET_STREAM after FIN (legal while the FIN is
        unacknowledged) or a repeated empty FIN"""
        late_done.add(key)
        kinds_used.add("late")
        late_count[0] += 1
        emit(key[0], key[1], ["reset"] if r.random() < 0.8 else ["fin"])

    late_count = [0]

    def feed_connclosed(side):
        L.current = None
        closed_fed.add(side)
        code = 40 + len(closed_fed)
        L.conn(side).state = ConnectionState.CLOSED
        L.trace.append(("in", "connclosed", side, code))
        kinds_used.add("connclosed-" + side)
        L.feed(qe.QuicConnectionClosed(L.conn(side), code, None, "bye"))

    # ---- start
    L.feed(events.Start())
    open_cmds = [c for c in L.pending if isinstance(c, commands.OpenConnection)]
    if open_cmds:
        L.complete(open_cmds[0], None)
    close_order = [] if close_plan == "none" else close_plan.split("-then-")

    while steps < 400:
        steps += 1
        # the far peers learn new streams from commands and start their responder scripts (bidi only)
        for side in "cs":
            for sid in L.known[side]:
                key = (side, sid)
                if key in resp_active or key in streams or ref.is_uni(sid) or ref.initiator(sid) == side:
                    continue
                resp_active[key] = responder_scripts[side].pop() if responder_scripts[side] else []
        acts = []
        for table in (streams, resp_active):
            for key, script in table.items():
                if script and key[0] not in closed_fed and key not in ended_in:
                    acts.append(("stream", table, key))
        for c in L.pending:
            acts.append(("complete", c))
        if dgrams and dgrams[0][0] not in closed_fed:
            acts.append(("dgram",))
        if close_order and steps >= close_at and close_order[0] not in closed_fed:
            acts.append(("connclosed", close_order[0]))
        late_cands = [k for k in ended_by_fin if k not in late_done and k[0] not in closed_fed]
        if late_cands and (not acts or r.random() < late_prob):
            late(r.choice(late_cands))
            continue
        if not acts:
            break
        comp = [a for a in acts if a[0] == "complete"]
        rest = [a for a in acts if a[0] != "complete"]
        if comp and rest:
            a = r.choice(rest) if r.random() < hook_delay else r.choice(comp)
        else:
            a = r.choice(acts)
        if a[0] == "stream":
            _, table, key = a
            emit(key[0], key[1], table[key].pop(0))
        elif a[0] == "complete":
            L.complete(a[1])
        elif a[0] == "dgram":
            side, k = dgrams.pop(0)
            payload = b"<D%s.%d>" % (side.encode(), k)
            L.trace.append(("in", "dgram", side, payload))
            L.current = ("dgram",)
            L.feed(events.DataReceived(L.conn(side), payload))
        elif a[0] == "connclosed":
            close_order.pop(0)
            feed_connclosed(a[1])
    # (an exception escaping handle_event is logged by the real server as a crash and the connection carries on: so do we)
    # a connection mitmproxy closed itself reports its close afterwards; then let all hooks finish
    if closed_fed:
        for side in "cs":
            if side not in closed_fed and any(t[:3] == ("out", "closeconn", side) for t in L.trace):
                feed_connclosed(side)
    guard = 0
    while L.pending and guard < 300:
        guard += 1
        L.complete(r.choice(L.pending))
    # late events on streams that are completely finished by now
    if late_prob:
        for k in [k for k in ended_by_fin if k not in late_done and k[0] not in closed_fed]:
            if r.random() < 0.5:
                late(k)
        while L.pending and guard < 600:
            guard += 1
            L.complete(r.choice(L.pending))

    # ---- oracle
    viol, stats = ref.check(L.trace, nextlayer=not force_raw)
    witness = {
        "trace": [t if len(t) < 5 or not isinstance(t[4], bytes) else (*t[:4], t[4][:16], *t[5:]) for t in L.trace][:120],
        "hooks": L.hooks[:60],
        "exceptions": [e[:2] for e in L.exceptions],
        "stats": {k: v for k, v in stats.items() if k != "allocated"},
    }
    ctx.count("route.data", stats["data_out"])
    ctx.count("route.class", stats["pairs"] + stats["alloc"])
    ctx.count("route.term", stats["fin_out"] + stats["reset_out"] + stats["stop_out"])
    for k in ("pairs", "fin_out", "reset_out", "stop_out"):
        ctx.count(k, stats[k])
    ctx.count("allocations", stats["alloc"])
    ctx.count("dgram", sum(1 for t in L.trace if t[:2] == ("out", "dgram")))
    ctx.count("term_before_pair_known", stats["unattributed_term"])
    if stats.get("undecided_abort"):
        ctx.count("undecided_stream_aborts", stats["undecided_abort"])
    if not force_raw:
        ctx.count("nextlayer_cases")
        ctx.count("next_layer_left_undecided", sum(1 for v in L.nl.values() if v["nl"].layer is None))
        ctx.count("next_layer_decided_late", sum(1 for v in L.nl.values() if v["nl"].layer is not None and v["asks"] > 1))
    if undecided_resets[0]:
        ctx.count("reset_on_undecided_stream", undecided_resets[0])
    if late_count[0]:
        ctx.count("late_events_after_fin", late_count[0])
    if L.queued_behind_hook:
        ctx.count("events_behind_pending_hook", L.queued_behind_hook)
    for kind, detail in viol[:3]:
        ctx.violation(kind, {**witness, "detail": detail}, classify(kind, detail, L))
    ctx.count("no_handler_crash")
    for e in L.exceptions:
        ctx.seen("layer_exceptions", f"{e[0]}@{e[1]} on {e[3]}")
        ctx.count("layer_exception")
        # The only tolerated escape (robustness observation outside the property, reported separately): a QUIC connection
        # closes while a stream's other side has not been opened yet (start hook / next layer pending):
        # `assert conn.timestamp_start is not None` in close_stream_layer.  Anything else (e.g. the stream-registration
        # assertion in _handle_event) means a stream event was dispatched to the wrong / no stream layer.
        if not (e[0] == "AssertionError" and e[1] == "_raw_layers.py:close_stream_layer" and e[3] == "QuicConnectionClosed"):
            ctx.violation(f"handler-crash:{e[0]}@{e[1]}", {**witness, "event": e[3], "tb": e[2]}, classify("handler-crash", e, L))
            break
    if L.unexpected:
        ctx.violation("unexpected-command", {**witness, "commands": L.unexpected[:5]})
    for side in "cs":
        ids = stats["allocated"][side]
        ctx.seen("allocated_id_sequences", f"{side}:{ids[:8]}")
    pairs = stats["pairs"]
    sig = (
        force_raw,
        (any(v["nl"].layer is None for v in L.nl.values()), any(v["asks"] > 1 and v["nl"].layer is not None for v in L.nl.values()), undecided_resets[0] > 0),
        tuple(sorted(set(classes))),
        min(len(classes), 4),
        tuple(sorted(kinds_used)),
        min(pairs, 3),
        hook_delay > 0.5,
        L.queued_behind_hook > 0,
        bool(L.exceptions),
    )
    nontrivial = pairs >= 2 or (pairs >= 1 and bool(kinds_used & {"reset", "connclosed-c", "connclosed-s"}))
    sample = {"streams": sorted(f"{k[0]}{k[1]}" for k in seq), "links": stats["links"], "trace_head": witness["trace"][:25]}
    return sig, nontrivial, sample


def classify(kind, detail, loop):
    return None  # no known findings for C30


def run(ctx):
    tctx, _ = sansio.addon_context()
    opts = tctx.options
    for i in ctx.cases():
        res = ctx.guard(run_case, ctx, opts, what="c30 case")
        if res is None:
            ctx.case(("aborted",), False)
            continue
        ctx.case(*res)
