"""C32 -- Message.text round-trips for every content type.

Monitor (direct, at the public boundary): a history on ONE request/response with a generated Content-Type (or
none): 1-6 times ``m.text = s`` must not raise and the strict getter ``m.text`` must then return exactly ``s`` (and
not raise).  Between assignments the message may be changed behind the setter's back -- the body replaced through
``.content`` / ``.raw_content`` with bytes in a codec that need not match the declared charset (a mislabelled body from
the wire), the Content-Type replaced or removed -- and the assigned text is either new, a text assigned earlier, the
lenient read ``get_text(strict=False)`` of the current body, or its strict read.  So a setter that consults the
previous body / header state (caching, "unchanged" short cuts) is exercised, not only the stateless path.
The oracle is the identity on ``s`` -- nothing of mitmproxy is re-used.  A pre-check with the stdlib only
(``s.encode(cs).decode(cs) == s``) removes charsets whose Python codec is itself not bijective on ``s`` from the
domain (counted, never alarmed).

vf/ref/c32_text.py holds the input predicates that map a failed round trip to a mechanism.
"""
from mitmproxy import http
from vf.ref import c32_text as ref

PROPERTY = "C32"
LEVEL = "exploration"
BUDGET = {"quick": (9000, 14), "thorough": (400_000, 180)}
WORKERS = {"quick": 2, "thorough": 16}
ENGINE = "direct"
TECHNIQUE = "round-trip monitoring of set_text/get_text over generated strings x content types"
REQUIRED = [
    "set_text.no_exception",
    "get_text.roundtrip",
    "history.body_not_strictly_decodable_before_assign",
    "history.lenient_readback_assigned",
    "history.same_text_reassigned",
    "history.header_changed",
]
RULE = (
    "case = a history on ONE message (request|response, optional Content-Encoding): 1-6 text assignments, each optionally "
    "preceded by a change behind the setter's back (body replaced via .content/.raw_content with bytes in a codec that need "
    "not match the declared charset, Content-Type replaced/removed); the assigned text is new, a text assigned before, the "
    "lenient read get_text(strict=False) of the current body, or the strict read; strings are built from "
    "ASCII, Latin-1, BMP, astral, NUL, U+FEFF/U+FFFE, BOM-looking Latin-1 prefixes, surrogate-escaped bytes and in-body "
    "declarations (<meta charset>, http-equiv, <?xml encoding?>, @charset) naming a random charset; content types cover "
    "none/empty/unparsable, text/plain, html, xhtml, xml, svg, css, json, javascript, octet-stream with no charset or a "
    "charset from ~45 names (latin-1, utf-8, utf-16/32 +le/be, gb2312/gbk/gb18030, ascii, cp1252, CJK and Cyrillic sets, "
    "utf-7, utf-8-sig, quoted, bogus, empty, content-coding and binary-codec names) in several parameter spellings. "
    "distinct = (media class, charset, parameter spelling, string feature set of the first text, set of step kinds, #steps bucket, content-encoding flag); "
    "non-trivial = the string has a non-ASCII character, a declaration or a BOM-like prefix, or a charset parameter is present, or the history has more than one step"
)
ASSUMPTIONS = [
    "domain of strings: Unicode scalar values plus U+DC80..U+DCFF (surrogate-escaped bytes); other lone surrogates are not generated",
    "a charset whose CPython codec is not bijective on the generated string (stdlib pre-check) is outside the domain",
    "pseudo codecs idna / punycode / raw_unicode_escape / unicode_escape are not charsets and are not generated",
]
LEVEL_TEXT = (
    "Exploration over inputs: random strings crossed with content types/charsets are assigned through the real "
    "Message.text setter and read back with the strict getter; any difference or exception is a violation. "
    "It shows absence of violations on the sampled cases only."
)
LEVEL_NOTE = "Trusted: CPython codecs (only for the bijectivity pre-check and mechanism classification), vf/ref/c32_text.py."

MEDIA = [
    (None, "none"), ("", "empty"), ("garbage", "unparsable"), ("text/plain", "plain"), ("text/html", "html"),
    ("TEXT/HTML", "html"), ("application/xhtml+xml", "html"), ("text/xml", "xml"), ("application/xml", "xml"),
    ("image/svg+xml", "xml"), ("text/css", "css"), ("application/json", "json"), ("application/ld+json", "json"),
    ("text/javascript", "js"), ("application/javascript", "js"), ("application/ecmascript", "js"),
    ("application/octet-stream", "other"), ("text/csv", "other"), ("application/json+html", "json"),
]
CHARSETS = [
    "latin-1", "iso-8859-1", "ISO-8859-1", "utf-8", "UTF-8", "utf8", "utf-16", "UTF-16", "utf-32", "utf-16le", "utf-16be",
    "utf-32le", "utf-32be", "gb2312", "GBK", "gb18030", "ascii", "us-ascii", "cp1252", "windows-1252", "iso-8859-15",
    "iso-8859-2", "koi8-r", "cp1251", "shift_jis", "euc-jp", "euc-kr", "big5", "cp037", "utf-7", "utf-8-sig",
    "bogus", "x-unknown", "", '"utf-8"', "'latin-1'", "utf-8 ", "identity", "none", "gzip", "br", "hex", "base64", "rot13", "zlib",
]
DECL_CHARSETS = ["latin-1", "utf-8", "utf-16", "utf-16le", "gb2312", "ascii", "cp1252", "bogus", "shift_jis", "koi8-r", "utf-32"]
ASCII_WORDS = ["hello", " world", "<p>", "</p>", "{}", "[1,2]", "a{color:red}", "var x=1;", "\r\n", "\t", "&amp;", "=", '"', "'", ">"]
LATIN1 = ["é", "ÿ", "þ", "ï", "»", "¿", "ß", "\x80", "\x9f", "\xa0", "ü"]
BMP = ["中文", "€", "ሴ", "я", "日本", "한", "Ω", " ", "�", "", "￿"]
ASTRAL = ["😀", "𝄞", "\U00010000", "\U0010ffff"]
BOMISH = ["ÿþ", "þÿ", "ï»¿", "﻿", "﻿\x00", "￾", "\x00\x00þÿ", "ÿþ\x00\x00", "ÿ", "ï»"]


def gen_decl(r):
    cs = r.choice(DECL_CHARSETS)
    k = r.randrange(6)
    if k == 0:
        return f'<meta charset="{cs}">', "meta"
    if k == 1:
        return f"<META CHARSET={cs}>", "meta"
    if k == 2:
        return f'<meta http-equiv="Content-Type" content="text/html; charset={cs}">', "meta"
    if k == 3:
        return f'<?xml version="1.0" encoding="{cs}"?>', "xmldecl"
    if k == 4:
        return f"<?XML version='1.0' encoding='{cs}' ?>", "xmldecl"
    return f'@charset "{cs}";', "css"


def gen_string(r):
    feats = set()
    parts = []
    if r.random() < 0.14:
        parts.append(r.choice(BOMISH))
        feats.add("bomish")
    if r.random() < 0.22:
        d, kind = gen_decl(r)
        if r.random() < 0.3:
            parts.append(r.choice(["<html><head>", " ", "\n", "/* */"]))
        parts.append(d)
        feats.add(kind)
    for _ in range(r.choice([0, 1, 1, 2, 3, 5, 12])):
        k = r.random()
        if k < 0.45:
            parts.append(r.choice(ASCII_WORDS))
        elif k < 0.65:
            parts.append(r.choice(LATIN1))
            feats.add("latin1")
        elif k < 0.80:
            parts.append(r.choice(BMP))
            feats.add("bmp")
        elif k < 0.87:
            parts.append(r.choice(ASTRAL))
            feats.add("astral")
        elif k < 0.93:
            parts.append("\x00")
            feats.add("nul")
        elif k < 0.95:
            parts.append(chr(r.randint(0xDC80, 0xDCFF)))
            feats.add("surrogate")
        elif k < 0.98:
            parts.append(r.choice(["﻿", "￾"]))
            feats.add("bomchar")
        else:
            parts.append(chr(r.choice([r.randint(0x20, 0x7E), r.randint(0xA0, 0x24F), r.randint(0x400, 0x4FF), r.randint(0x4E00, 0x9FFF), r.randint(0x10000, 0x1FFFF)])))
            feats.add("random")
    s = "".join(parts)
    if s and all(ord(c) < 128 for c in s):
        feats.add("ascii")
    if not s:
        feats.add("empty")
    return s, tuple(sorted(feats))


def gen_content_type(r):
    media, mclass = r.choice(MEDIA)
    if media is None:
        return None, mclass, None, "-"
    k = r.random()
    if k < 0.35 or media in ("", "garbage") and k < 0.8:
        return media, mclass, None, "-"
    cs = r.choice(CHARSETS)
    sp = r.randrange(7)
    ct = [
        f"{media}; charset={cs}",
        f"{media};charset={cs}",
        f"{media}; Charset={cs}",
        f"{media} ; charset = {cs}",
        f"{media}; boundary=x; charset={cs}",
        f"{media}; charset={cs}; format=flowed",
        f"{media}; charset=utf-8; charset={cs}",
    ][sp]
    return ct, mclass, cs, sp


def mk_msg(r, ct, ce):
    fields = []
    if ct is not None:
        fields.append((r.choice([b"Content-Type", b"content-type"]), ct.encode("utf-8", "surrogateescape")))
    if ce:
        fields.append((b"Content-Encoding", ce.encode()))
    if r.random() < 0.5:
        return http.Response(b"HTTP/1.1", 200, b"OK", http.Headers(fields), b"", None, 0.0, 0.0), "resp"
    return http.Request("example.com", 80, b"POST", b"http", b"", b"/", b"HTTP/1.1", http.Headers(fields), b"", None, 0.0, 0.0), "req"


def in_domain(ct, s):
    """stdlib-only pre-check: the declared charset's CPython codec must be bijective on s (when it is a text codec that can encode s)."""
    cs = ref.charset_param(ct)
    if not cs or not ref.is_text_codec(cs):
        return True
    try:
        b = s.encode(cs)
    except Exception:
        return True  # not representable -> the setter must fall back
    try:
        return b.decode(cs) == s
    except Exception:
        return False


BODY_CODECS = ["utf-8", "utf-8", "utf-8", "latin-1", "utf-16", "utf-16le", "gb18030", "cp1252", "shift_jis", "koi8-r"]


def gen_body(r):
    """Bytes for .content / .raw_content that need not match the declared charset (a mislabelled body from the wire)."""
    if r.random() < 0.15:
        return r.randbytes(r.randint(1, 24)), "random"
    s, _ = gen_string(r)
    if not s:
        s = r.choice(["é", "中文", "héllo wörld", "я"])
    codec = r.choice(BODY_CODECS)
    try:
        return s.encode(codec, "surrogateescape" if codec == "utf-8" else "replace"), codec
    except Exception:
        return s.encode("utf-8", "surrogatepass"), "utf-8"


def perturb(ctx, r, m, log):
    """Between two assignments: replace the body behind the setter's back and / or change the Content-Type."""
    k = r.choice(["content", "raw", "header", "header", "header+content", "header+raw"])
    if "header" in k:
        ct, _, _, _ = gen_content_type(r)
        if ct is None:
            m.headers.pop("content-type", None)
        else:
            m.headers["content-type"] = ct
        ctx.count("history.header_changed")
        log.append(("content-type", ct))
    if "content" in k or "raw" in k:
        b, codec = gen_body(r)
        if "raw" in k or "content-encoding" not in m.headers:
            m.raw_content = b
            log.append(("raw_content", codec, b[:40]))
        else:
            try:
                m.content = b
                log.append(("content", codec, b[:40]))
            except Exception:  # C31's business (str-only codec named as Content-Encoding); not generated here
                m.raw_content = b
                log.append(("raw_content", codec, b[:40]))
        ctx.count("history.body_replaced")
    return k


def choose_text(ctx, r, m, prev):
    """-> (text, source, feature tuple). Sources: new | same (a text assigned before) | lenient (get_text(strict=False)
    of the current body) | strict (the current strict read)."""
    k = r.random()
    if prev and k < 0.22:
        ctx.count("history.same_text_reassigned")
        s = r.choice(prev)
        return s, "same", ("same",)
    if k < 0.50 and m.raw_content:
        try:
            s = m.get_text(strict=False)
        except Exception:
            s = None
        if isinstance(s, str):
            ctx.count("history.lenient_readback_assigned")
            return s, "lenient", ("lenient", "surrogate") if ref.has_surrogates(s) else ("lenient",)
    if k < 0.58 and m.raw_content:
        try:
            s = m.text
        except Exception:
            s = None
        if isinstance(s, str):
            ctx.count("history.strict_readback_assigned")
            return s, "strict", ("strict",)
    s, feats = gen_string(r)
    return s, "new", feats


def run(ctx):
    for i in ctx.cases():
        r = ctx.rng
        ct, mclass, cs, sp = gen_content_type(r)
        ce = r.choices([None, "gzip", "br", "x-bogus"], [82, 10, 4, 4])[0]
        m, kind = mk_msg(r, ct, ce)
        n_assign = r.choice([1, 1, 2, 2, 3, 4, 6])
        feats_all = []
        sources = []
        prev = []
        log = []
        sample = None
        for n in range(n_assign):
            # ---- history: the message may already hold a (mislabelled) body, and headers may change between assignments
            if r.random() < (0.6 if n else 0.45):
                sources.append(perturb(ctx, r, m, log))
            if m.raw_content:
                try:
                    m.text
                except ValueError:
                    ctx.count("history.body_not_strictly_decodable_before_assign")
                except Exception:
                    pass
            s, src, feats = choose_text(ctx, r, m, prev)
            sources.append(src)
            feats_all.append(feats)
            ct_before = m.headers.get("content-type")
            if not in_domain(ct_before, s):
                ctx.count("codec_not_bijective_skipped")
                break
            wit = {
                "content_type": ct_before, "text": s[:200], "text_len": len(s), "text_source": src, "content_encoding": ce, "message": kind,
                "assignment": n, "raw_before": (m.raw_content or b"")[:80], "history": log[-8:],
            }
            ctx.count("set_text.no_exception")
            try:
                m.text = s
            except Exception as e:
                ctx.violation(f"set-text-raises:{type(e).__name__}", {**wit, "exc": repr(e)[:200]}, ref.classify(ct_before, s, "set"))
                break
            log.append(("text", src, s[:40]))
            prev.append(s)
            wit["content_type_after"] = m.headers.get("content-type")
            wit["raw"] = (m.raw_content or b"")[:120]
            ctx.count("get_text.roundtrip")
            try:
                back = m.text
            except Exception as e:
                ctx.violation(f"get-text-raises:{type(e).__name__}", {**wit, "exc": repr(e)[:200]}, ref.classify(ct_before, s, "get"))
                break
            if back != s:
                ctx.violation("text-roundtrip-differs", {**wit, "back": back[:200] if isinstance(back, str) else repr(back)[:200]}, ref.classify(ct_before, s, "get"))
                break
            if wit["content_type_after"] != ct_before:
                ctx.count("charset_updated_by_fallback")
            if sample is None or (len(log) > 2 and r.random() < 0.5):
                sample = {"content_type": ct_before, "text": s[:80], "content_type_after": wit["content_type_after"], "raw": wit["raw"][:40], "history": log[-6:]}
        f0 = feats_all[0]
        nontrivial = cs is not None or len(sources) > 1 or any(f not in ("ascii", "empty") for fs in feats_all for f in fs)
        ctx.case((mclass, cs, sp if len(sources) == 1 else "-", f0 if len(sources) == 1 else f0[:2], tuple(sorted(set(sources))), min(len(sources), 4), bool(ce)), nontrivial=nontrivial, sample=sample)
