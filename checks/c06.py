"""C06 -- translating between HTTP versions preserves message semantics (h1<->h2, h3->h1, h3->h2; h2->h2 as control).

Engine A.  One or two exchanges per case go through the real proxy-mode layer -> HttpLayer stack with every combination of
client/origin protocol in {HTTP/1.1, HTTP/2} (except h1->h1, which is C01's subject).  Both ends decode independently of
mitmproxy: HTTP/1 bytes with vf/ref/http1.py (own RFC 9112 reader), HTTP/2 with hyper-h2 / hyperframe + hpack (vf/peers_h2.py).

Two kinds of messages
  valid        generated semantic messages (method, authority incl. ports / IPv6 literals, paths with queries, duplicate fields,
               0-3 cookies, empty values, obs-text, bodies with or without content-length, trailers, status codes incl. 204/304 and
               HEAD exchanges) rendered in the sender's version; they MUST be forwarded and the next hop must decode the same
               method / scheme / authority-or-Host / path / status / end-to-end fields / cookies / body / trailers
  adversarial  HTTP/2 header blocks sent by a raw-frame client (hand-made hpack, no client-side validation): CR/LF/NUL/SP/HTAB in
               pseudo-headers, names and values, upper-case names, connection-specific fields, duplicate / misplaced / unknown /
               missing pseudo-headers, absolute-URI or authority-form :path, host != :authority, content-length that contradicts
               the DATA frames or END_STREAM; and adversarial HTTP/2 response blocks from the origin.  Outcome must be either
               REJECTED (nothing of the message reaches the next hop) or FORWARDED FAITHFULLY.

Monitors
  up.h1.single      bytes on an HTTP/1 upstream connection of an h2 client parse (strict RFC 9112) into exactly one complete
                    request with nothing left over
  up.semantics      the request decoded by the origin equals the request sent (see above); Host/:authority conversions, cookies
                    joined with "; " towards HTTP/1
  down.h1.sequence  bytes written to an HTTP/1 client parse into one response per answered request, nothing left over
  down.semantics    the response decoded by the client equals the response the origin sent
  valid.forwarded   a valid request is forwarded and answered
  layer.exception   no exception escapes the layers while translating
  peer.protocol     hyper-h2 accepts everything mitmproxy writes on h2 connections
  flow.request.unchanged   forwarding does not change the captured flow: after the exchange the flow's request equals its snapshot
                    at the `request` hook (headers incl. Host, authority, method, path, host/port/scheme, content, trailers)
  replay.h2.semantics      "translated twice": the SAME flow object sent again with the clientplayback wiring (MockServer below a
                    transparent HttpLayer) towards an HTTP/2 origin is decoded there as the request the client originally sent
"""
import random
import re

from mitmproxy.proxy import layers
from mitmproxy.proxy.layers.http import HTTPMode

from vf import peers, peers_h2 as P, peers_h3 as Q, sansio
from vf.ref import http1 as ref

PROPERTY = "C06"
LEVEL = "exploration"
ENGINE = "sansio"
BUDGET = {"quick": (700, 18), "thorough": (60000, 240)}
WORKERS = {"quick": 4, "thorough": 16}
REQUIRED = ["up.h1.single", "up.semantics", "down.h1.sequence", "down.semantics", "valid.forwarded", "adversarial.outcome", "layer.exception", "flow.request.unchanged", "replay.h2.semantics"]
TECHNIQUE = "runtime monitoring: differential decoding at both wire boundaries (own RFC 9112 reader, hyper-h2, raw hpack frames)"
RULE = (
    "fixed matrix first (every adversarial pseudo-header / content-length class x {h2,h3} client x {h1,h2} next hop, one class per case), then random: "
    "case = (client version h1|h2|h3, origin version h1|h2, proxy mode, 1-2 exchanges; each request/response either a generated valid semantic message "
    "or an HTTP/2 header block with 1-2 adversarial mutations sent as raw frames, optional body streaming, random segmentation and "
    "schedule); signature = (pair, mode, sorted request feature set, sorted response feature set, outcome per exchange); non-trivial iff "
    "client and origin versions differ or a block is adversarial"
)
ASSUMPTIONS = [
    "HTTP/3 is covered on the CLIENT side only (h3->h1, h3->h2; vf/peers_h3.py replaces the QUIC transport below Http3Server by in-memory stream events, one request per connection); an HTTP/3 next hop (Http3Client) is not driven",
    "HTTP/1 clients send valid requests only: hostile HTTP/1 request-target / Host forms are C01's generator domain; the adversarial classes of this check are HTTP/2 / HTTP/3 header blocks",
    "end-to-end fields = all fields except Connection, Keep-Alive, Proxy-Connection, Transfer-Encoding, Upgrade, TE, Host/:authority (compared as authority) and Content-Length (framing; checked through the decoded body)",
    "trailers count as carriable towards HTTP/1 only when the emitted HTTP/1 message is chunked; dropping them from a Content-Length framed message is tolerated and counted (trailers_dropped_cl_framed)",
    "regular-mode HTTP/1 requests use absolute-form with a matching Host; reverse-mode clients address the configured upstream (no Host rewrite in play); no addon edits",
    "an adversarial block may be refused per stream, per connection, or answered with mitmproxy's own error response; all count as REJECTED",
    "validate_inbound_headers stays at its default (on)",
]
LEVEL_TEXT = (
    "Exploration: generated valid messages and adversarial raw HTTP/2 header blocks are pushed through every h1/h2 client-origin pair; "
    "what the next hop decodes (own RFC 9112 reader / hyper-h2) is compared with what was sent. A block is either refused or must arrive "
    "as exactly one identically framed message. Decides the executions observed; reach comes from the mutation catalogue."
)
LEVEL_NOTE = "Trusted: vf/ref/http1.py, hyper-h2/hpack/hyperframe, the sans-io driver's model of ConnectionHandler (vf/sansio.py)."

PAIRS = ["h2h1"] * 5 + ["h1h2"] * 3 + ["h2h2"] * 2 + ["h3h1"] * 2 + ["h3h2"]
MODES = ["regular", "reverse:http://example.com:80", "transparent"]
HOP = {"connection", "keep-alive", "proxy-connection", "transfer-encoding", "upgrade", "te"}
FRAMING = {"content-length", "host"}
TAGRE = re.compile(rb"q\d+x[0-9a-f]{5}")
DEBUG = None


class ForceHttp:
    def next_layer(self, nl):
        regular = type(nl.context.client.proxy_mode).__name__ == "RegularMode"
        nl.layer = layers.HttpLayer(nl.context, HTTPMode.regular if regular else HTTPMode.transparent)


def top_factory(mode):
    if mode == "regular":
        return lambda c: layers.modes.HttpProxy(c)
    if mode.startswith("reverse"):
        return lambda c: layers.modes.ReverseProxy(c)
    return lambda c: layers.modes.TransparentProxy(c)


# ----------------------------------------------------------------------------------------------------------------------
# valid semantic messages
# ----------------------------------------------------------------------------------------------------------------------

AUTHORITIES = [b"example.com", b"example.com", b"example.com:8080", b"sub.example.org", b"192.0.2.7:81", b"[2001:db8::1]:8080", b"[2001:db8::2]"]


def gen_request(r, k, mode, cv):
    tag = b"q%dx%05x" % (k, r.getrandbits(20))
    feats = set()
    method = r.choice([b"GET", b"GET", b"POST", b"PUT", b"DELETE", b"OPTIONS", b"HEAD", b"PATCH"])
    authority = b"example.com" if mode.startswith("reverse") else r.choice(AUTHORITIES)
    if authority != b"example.com":
        feats.add("authority-port-or-literal")
    path = b"/" + tag + r.choice([b"", b"", b"?q=a%20b&x=y", b"/;p=1", b"/a/../b", b"?", b"//x", b"/%2F%00"])
    if path != b"/" + tag:
        feats.add("path-extra")
    headers = [(b"x-tag", tag)]
    pool = [
        (b"accept", b"*/*"), (b"user-agent", b"vf/1.0 (x; y)"), (b"x-multi", b"one"), (b"x-multi", b"two, three"), (b"x-empty", b""),
        (b"x-colon", b"a: b, c;d=\"e\""), (b"x-obs", b"caf\xe9"), (b"accept-language", b"de, en;q=0.5"), (b"x-long", b"L" * r.choice([300, 5000] if cv != "h3" else [300, 2000])),
        (b"authorization", b"Basic dXNlcjpwYXNz"), (b"x-tab", b"a\tb"), (b"referer", b"http://example.com/" + tag),
    ]
    for h in r.sample(pool, r.randint(0, 6)):
        headers.append(h)
    if any(n == b"x-empty" for n, _ in headers):
        feats.add("empty-value")
    if sum(1 for n, _ in headers if n == b"x-multi") == 2:
        feats.add("dup-field")
    cookies = [b"c%d=%s" % (i, tag) for i in range(r.choice([0, 0, 1, 2, 3]))]
    if len(cookies) > 1:
        feats.add("multi-cookie")
    body = None
    if method in (b"POST", b"PUT", b"PATCH") or r.random() < 0.1:
        body = r.choice([b"", b"b:" + tag, b"b:" + tag + b":" + b"z" * r.randint(1, 4000), b"GET /smuggled-" + tag + b" HTTP/1.1\r\nHost: evil.example\r\n\r\n"])
        if body.startswith(b"GET "):
            feats.add("body-embedded-request")
    declare_cl = r.random() < 0.5
    trailers = None
    if cv in ("h2", "h3") and body and r.random() < 0.25:
        trailers = [(b"x-trailer", tag), (b"x-sum", b"1")][: r.choice([1, 2])]
        feats.add("req-trailers")
    if body is not None:
        feats.add("body" if body else "body-empty")
        feats.add("cl" if declare_cl else "no-cl")
    return {"tag": tag, "method": method, "authority": authority, "path": path, "headers": headers, "cookies": cookies, "body": body, "declare_cl": declare_cl, "trailers": trailers, "feats": feats, "adv": None}


def render_h1_request(r, q, mode):
    names = lambda n: r.choice([n, n.title(), n.upper()]) if r.random() < 0.5 else n  # noqa: E731
    target = (b"http://" + q["authority"] if mode == "regular" else b"") + q["path"]
    lines = [q["method"] + b" " + target + b" HTTP/1.1", names(b"host") + b": " + q["authority"]]
    for n, v in q["headers"]:
        lines.append(names(n) + b":" + r.choice([b" ", b"", b"  "]) + v)
    for c in ([b"; ".join(q["cookies"])] if q["cookies"] else []):
        lines.append(names(b"cookie") + b": " + c)
    body = q["body"]
    tail = b""
    if body is not None:
        if q["declare_cl"] or not body:
            lines.append(b"Content-Length: %d" % len(body))
            tail = body
        else:
            lines.append(b"Transfer-Encoding: chunked")
            pos, out = 0, b""
            while pos < len(body):
                n = r.randint(1, max(1, len(body) - pos))
                out += b"%x\r\n" % n + body[pos : pos + n] + b"\r\n"
                pos += n
            tail = out + b"0\r\n\r\n"
            q["feats"].add("h1-chunked")
    if r.random() < 0.15:
        lines.append(b"Connection: keep-alive")
        q["feats"].add("conn-keepalive")
    return b"\r\n".join(lines) + b"\r\n\r\n" + tail


def h2_request_block(q):
    block = [(b":method", q["method"]), (b":scheme", b"http"), (b":authority", q["authority"]), (b":path", q["path"])] + list(q["headers"])
    for c in q["cookies"]:
        block.append((b"cookie", c))
    if q["body"] is not None and q["declare_cl"]:
        block.append((b"content-length", b"%d" % len(q["body"])))
    return block


def h2_request_actions(r, q, key):
    block = h2_request_block(q)
    body = q["body"]
    if not body and not q["trailers"]:
        if body == b"" and r.random() < 0.5:
            return [("headers", key, block, False), ("data", key, b"", True)]
        return [("headers", key, block, True)]
    acts = [("headers", key, block, False)]
    pos = 0
    while pos < len(body):
        n = r.randint(1, max(1, len(body) - pos))
        pos += n
        acts.append(("data", key, body[pos - n : pos], pos >= len(body) and not q["trailers"] and r.random() < 0.7))
    if q["trailers"]:
        acts.append(("trailers", key, q["trailers"]))
    elif not acts[-1][3]:
        acts.append(("data", key, b"", True))
    return acts


def gen_response(salt, tag, method, sv):
    """Semantic response the origin sends for `tag` -- pure function of (salt, tag, method, origin version)."""
    r = random.Random(f"{salt}/{tag!r}/{method!r}")
    feats = set()
    status = r.choice([200, 200, 200, 201, 204, 304, 404, 500, 302])
    headers = [(b"x-tag", tag)]
    pool = [(b"content-type", b"text/plain; charset=utf-8"), (b"server", b"origin/1"), (b"x-multi", b"r1"), (b"x-multi", b"r2"), (b"x-empty", b""), (b"etag", b'W/"' + tag + b'"'),
            (b"location", b"http://example.com/" + tag), (b"cache-control", b"no-store, max-age=0"), (b"x-obs", b"\xfcber")]
    for h in r.sample(pool, r.randint(0, 5)):
        headers.append(h)
    setcookies = [b"s%d=%s; Path=/; HttpOnly" % (i, tag) for i in range(r.choice([0, 0, 1, 2]))]
    if len(setcookies) > 1:
        feats.add("multi-set-cookie")
    nobody = method == b"HEAD" or status in (204, 304)
    body = b"" if nobody else r.choice([b"", b"r:" + tag, b"r:" + tag + b":" + b"y" * r.randint(1, 5000), b"HTTP/1.1 200 OK\r\nContent-Length: 0\r\n\r\n"])
    framing = r.choice(["cl", "cl", "none"]) if sv == "h2" else r.choice(["cl", "cl", "chunked", "close"])
    if nobody:
        framing = r.choice(["cl", "none"]) if status != 204 else "none"
        feats.add("bodyless-status-or-head")
    trailers = None
    if sv == "h2" and body and r.random() < 0.25:
        trailers = [(b"x-rtrailer", tag)]
        feats.add("resp-trailers")
    elif sv == "h2" and not nobody and r.random() < 0.2:
        # gRPC-style answer: status 200, no content at all, the result travels in the trailers
        status, body, framing = 200, b"", "none"
        trailers = [(b"grpc-status", b"0"), (b"grpc-message", tag)][: r.choice([1, 2])]
        feats.update({"resp-trailers", "resp-trailers-only"})
        if r.random() < 0.4:
            feats.add("resp-empty-data-frame")  # an empty DATA frame between the two header blocks
    feats.add(f"resp-{framing}")
    return {"status": status, "headers": headers, "setcookies": setcookies, "body": body, "framing": framing, "trailers": trailers, "nobody": nobody, "feats": feats, "adv": None,
            "declared_len": len(body) if not nobody else r.choice([0, 17])}


def render_h1_response(rs):
    lines = [b"HTTP/1.1 %d %s" % (rs["status"], {200: b"OK", 404: b"Not Found"}.get(rs["status"], b"Whatever"))]
    for n, v in rs["headers"]:
        lines.append(n.title() + b": " + v)
    for c in rs["setcookies"]:
        lines.append(b"Set-Cookie: " + c)
    body = rs["body"]
    close = False
    if rs["framing"] == "cl":
        lines.append(b"Content-Length: %d" % rs["declared_len"])
        tail = body
    elif rs["framing"] == "chunked":
        lines.append(b"Transfer-Encoding: chunked")
        tail = (b"%x\r\n" % len(body) + body + b"\r\n" if body else b"") + b"0\r\n\r\n"
    elif rs["framing"] == "close":
        lines.append(b"Connection: close")
        tail = body
        close = True
    else:
        tail = b""
        if not rs["nobody"]:
            close = True
    return b"\r\n".join(lines) + b"\r\n\r\n" + tail, close


def h2_response_actions(rs):
    block = [(b":status", b"%d" % rs["status"])] + list(rs["headers"]) + [(b"set-cookie", c) for c in rs["setcookies"]]
    if rs["framing"] == "cl":
        block.append((b"content-length", b"%d" % rs["declared_len"]))
    body = rs["body"]
    if not body and not rs["trailers"]:
        return [("headers", block, True)]
    acts = [("headers", block, False)]
    half = len(body) // 2
    for part in ([body[:half], body[half:]] if half else [body]):
        if part or not rs["trailers"] or "resp-empty-data-frame" in rs["feats"]:
            acts.append(("data", part, False))
    if rs["trailers"]:
        acts.append(("trailers", rs["trailers"]))
    else:
        acts[-1] = ("data", acts[-1][1], True)
    return acts


# ----------------------------------------------------------------------------------------------------------------------
# adversarial HTTP/2 blocks
# ----------------------------------------------------------------------------------------------------------------------

def _set(block, name, value):
    return [(n, value if n == name else v) for n, v in block]


REQ_MUTATIONS = {
    "sp-in-path": lambda b, q, r: _set(b, b":path", q["path"] + b" x"),
    "sp-http-version-in-path": lambda b, q, r: _set(b, b":path", q["path"] + b" HTTP/1.1\r\nx-injected: 1"),
    "tab-in-path": lambda b, q, r: _set(b, b":path", q["path"] + b"\tx"),
    "crlf-in-path": lambda b, q, r: _set(b, b":path", q["path"] + b"\r\nx-injected: 1"),
    "lf-in-path": lambda b, q, r: _set(b, b":path", q["path"] + b"\nx-injected: 1"),
    "nul-in-path": lambda b, q, r: _set(b, b":path", q["path"] + b"\x00x"),
    "del-in-path": lambda b, q, r: _set(b, b":path", q["path"] + b"\x7fx"),
    "sp-in-method": lambda b, q, r: _set(b, b":method", b"GET /other"),
    "crlf-in-method": lambda b, q, r: _set(b, b":method", b"GET / HTTP/1.1\r\nx-injected: 1\r\n\r\nGET"),
    # (not for HEAD: mitmproxy matches HEAD case-insensitively while the scripted origin would send a body to "head")
    "lowercase-method": lambda b, q, r: _set(b, b":method", q["method"].lower() if q["method"] != b"HEAD" else b"gEt"),
    "sp-in-authority": lambda b, q, r: _set(b, b":authority", b"example.com x"),
    "crlf-in-authority": lambda b, q, r: _set(b, b":authority", b"example.com\r\nx-injected: 1"),
    "at-in-authority": lambda b, q, r: _set(b, b":authority", b"user@example.com"),
    "slash-in-authority": lambda b, q, r: _set(b, b":authority", b"example.com/x"),
    "crlf-in-value": lambda b, q, r: b + [(b"x-evil", b"a\r\nx-injected: 1")],
    "lf-in-value": lambda b, q, r: b + [(b"x-evil", b"a\nx-injected: 1")],
    "cr-in-value": lambda b, q, r: b + [(b"x-evil", b"a\rx-injected: 1")],
    "nul-in-value": lambda b, q, r: b + [(b"x-evil", b"a\x00b")],
    "lead-trail-ws-value": lambda b, q, r: b + [(b"x-evil", r.choice([b" a", b"a ", b"\ta"]))],
    "uppercase-name": lambda b, q, r: b + [(b"X-Evil", b"1")],
    "colon-in-name": lambda b, q, r: b + [(b"x-evil: 1\r\nx-injected", b"1")],
    "sp-in-name": lambda b, q, r: b + [(b"x evil", b"1")],
    "crlf-in-name": lambda b, q, r: b + [(b"x-evil\r\nx-injected", b"1")],
    "empty-name": lambda b, q, r: b + [(b"", b"1")],
    "obs-text-name": lambda b, q, r: b + [(b"x-\xe9vil", b"1")],
    "connection-header": lambda b, q, r: b + [(b"connection", b"x-tag")],
    "transfer-encoding-chunked": lambda b, q, r: b + [(b"transfer-encoding", b"chunked")],
    "te-gzip": lambda b, q, r: b + [(b"te", b"gzip")],
    "te-trailers": lambda b, q, r: b + [(b"te", b"trailers")],
    "keep-alive-header": lambda b, q, r: b + [(b"keep-alive", b"timeout=5")],
    "proxy-connection-header": lambda b, q, r: b + [(b"proxy-connection", b"keep-alive")],
    "upgrade-header": lambda b, q, r: b + [(b"upgrade", b"websocket")],
    "dup-path": lambda b, q, r: b[:4] + [(b":path", b"/other-" + q["tag"])] + b[4:],
    "dup-method": lambda b, q, r: b[:4] + [(b":method", b"DELETE")] + b[4:],
    "dup-authority": lambda b, q, r: b[:4] + [(b":authority", b"evil.example")] + b[4:],
    "pseudo-after-regular": lambda b, q, r: b[:3] + b[4:] + [b[3]],
    "unknown-pseudo": lambda b, q, r: b[:4] + [(b":foo", b"bar")] + b[4:],
    "response-pseudo-in-request": lambda b, q, r: b[:4] + [(b":status", b"200")] + b[4:],
    "missing-path": lambda b, q, r: [h for h in b if h[0] != b":path"],
    "empty-path": lambda b, q, r: _set(b, b":path", b""),
    "missing-method": lambda b, q, r: [h for h in b if h[0] != b":method"],
    "missing-scheme": lambda b, q, r: [h for h in b if h[0] != b":scheme"],
    "path-no-slash": lambda b, q, r: _set(b, b":path", q["tag"]),
    "path-absolute-uri": lambda b, q, r: _set(b, b":path", b"http://evil.example/" + q["tag"]),
    "path-authority-form": lambda b, q, r: _set(b, b":path", b"evil.example:8080"),
    "path-no-slash-query": lambda b, q, r: _set(b, b":path", q["tag"] + b"?x=1"),
    "path-asterisk-options": lambda b, q, r: _set(_set(b, b":method", b"OPTIONS"), b":path", b"*"),  # the one legitimate slash-less :path
    "authority-odd-port": lambda b, q, r: _set(b, b":authority", r.choice([b"example.com:99999", b"example.com:abc", b"example.com:", b"example.com:80:80"])),
    "tab-in-authority": lambda b, q, r: _set(b, b":authority", b"example.com\tx"),
    "dup-scheme": lambda b, q, r: b[:4] + [(b":scheme", b"https")] + b[4:],
    "scheme-uppercase-or-empty": lambda b, q, r: _set(b, b":scheme", r.choice([b"", b"HTTPS", b"http ", b"h2"])),
    "path-asterisk-non-options": lambda b, q, r: _set(b, b":path", b"*"),
    "scheme-odd": lambda b, q, r: _set(b, b":scheme", r.choice([b"ftp", b"http://x", b"HTTP"])),
    "host-differs-from-authority": lambda b, q, r: b + [(b"host", b"evil.example")],
    "host-equals-authority": lambda b, q, r: b + [(b"host", q["authority"])],
    "host-only": lambda b, q, r: [h for h in b if h[0] != b":authority"] + [(b"host", q["authority"])],
    "two-hosts-equal": lambda b, q, r: b + [(b"host", q["authority"]), (b"host", q["authority"])],
    "two-hosts": lambda b, q, r: [h for h in b if h[0] != b":authority"] + [(b"host", q["authority"]), (b"host", b"evil.example")],
    "cl-dup-conflict": lambda b, q, r: [h for h in b if h[0] != b"content-length"] + [(b"content-length", b"0"), (b"content-length", b"7")],
    "cl-nonnumeric": lambda b, q, r: [h for h in b if h[0] != b"content-length"] + [(b"content-length", r.choice([b"+3", b"3, 3", b"0x3", b"3 ", b"-1", b""]))],
}
# mutations of the DATA/END_STREAM plan relative to the declared content-length
CL_MUTATIONS = ["cl-more-than-data", "cl-less-than-data", "cl-positive-end-stream-on-headers", "cl-zero-with-data"]

RESP_MUTATIONS = {
    "crlf-in-value": lambda b, rs, r: b + [(b"x-evil", b"a\r\nx-injected: 1")],
    "lf-in-value": lambda b, rs, r: b + [(b"x-evil", b"a\nx-injected: 1")],
    "nul-in-value": lambda b, rs, r: b + [(b"x-evil", b"a\x00b")],
    "uppercase-name": lambda b, rs, r: b + [(b"X-Evil", b"1")],
    "colon-in-name": lambda b, rs, r: b + [(b"x-evil: 1\r\nx-injected", b"1")],
    "sp-in-name": lambda b, rs, r: b + [(b"x evil", b"1")],
    "connection-header": lambda b, rs, r: b + [(b"connection", b"close")],
    "transfer-encoding-chunked": lambda b, rs, r: b + [(b"transfer-encoding", b"chunked")],
    "status-with-reason": lambda b, rs, r: _set(b, b":status", b"200 OK"),
    "status-nonnumeric": lambda b, rs, r: _set(b, b":status", r.choice([b"2x0", b"", b"20", b"0200", b"-200", b"99999"])),
    "status-crlf": lambda b, rs, r: _set(b, b":status", b"200\r\nx-injected: 1"),
    "dup-status": lambda b, rs, r: b[:1] + [(b":status", b"404")] + b[1:],
    "pseudo-after-regular": lambda b, rs, r: b[1:] + b[:1],
    "unknown-pseudo": lambda b, rs, r: b[:1] + [(b":foo", b"bar")] + b[1:],
    "missing-status": lambda b, rs, r: b[1:],
    "cl-dup-conflict": lambda b, rs, r: [h for h in b if h[0] != b"content-length"] + [(b"content-length", b"0"), (b"content-length", b"7")],
    "cl-nonnumeric": lambda b, rs, r: [h for h in b if h[0] != b"content-length"] + [(b"content-length", r.choice([b"+3", b"3, 3", b"0x3", b"-1"]))],
}
RESP_CL_MUTATIONS = ["cl-more-than-data", "cl-less-than-data", "cl-positive-end-stream-on-headers"]


def make_adversarial_request(r, q, key_sid, force=None):
    """-> script for RawH2Client / RawH3Client (frames for stream key_sid) + feature set + the block actually sent + the DATA sent.
    force = name of exactly one mutation (fixed matrix)."""
    block = h2_request_block(q)
    feats = []
    data = q["body"] or b""
    end_on_headers = not data
    nm = 1 if force else r.choice([1, 1, 1, 2])
    for _ in range(nm):
        if (force in CL_MUTATIONS) if force else (r.random() < 0.18):
            m = force or r.choice(CL_MUTATIONS)
            block = [h for h in block if h[0] != b"content-length"]
            if m == "cl-more-than-data":
                data = data or b"abc"
                block.append((b"content-length", b"%d" % (len(data) + r.choice([1, 5, 100]))))
                end_on_headers = False
            elif m == "cl-less-than-data":
                data = data if len(data) > 1 else b"abcdef"
                block.append((b"content-length", b"%d" % r.randint(0, len(data) - 1)))
                end_on_headers = False
            elif m == "cl-positive-end-stream-on-headers":
                data = b""
                block.append((b"content-length", b"%d" % r.choice([1, 5, 1000])))
                end_on_headers = True
            else:
                data = data or b"abc"
                block.append((b"content-length", b"0"))
                end_on_headers = False
        else:
            m = force or r.choice(sorted(REQ_MUTATIONS))
            block = REQ_MUTATIONS[m](block, q, r)
        feats.append(m)
    script = [("headers", key_sid, block, end_on_headers, {"split": r.choice([0, 0, 7, 40]), "never_index": r.random() < 0.2})]
    if not end_on_headers:
        half = len(data) // 2
        parts = [data[:half], data[half:]] if half and r.random() < 0.5 else [data]
        for i, part in enumerate(parts):
            script.append(("data", key_sid, part, i == len(parts) - 1))
    return script, sorted(set(feats)), block, data


def make_adversarial_response(r, rs):
    acts = h2_response_actions(rs)
    block = acts[0][1]
    feats = []
    if r.random() < 0.25:
        m = r.choice(RESP_CL_MUTATIONS)
        block = [h for h in block if h[0] != b"content-length"]
        body = rs["body"]
        if m == "cl-more-than-data":
            body = body or b"abc"
            block.append((b"content-length", b"%d" % (len(body) + r.choice([1, 5, 100]))))
            acts = [("headers", block, False), ("data", body, True)]
        elif m == "cl-less-than-data":
            body = body if len(body) > 1 else b"abcdef"
            block.append((b"content-length", b"%d" % r.randint(0, len(body) - 1)))
            acts = [("headers", block, False), ("data", body, True)]
        else:
            block.append((b"content-length", b"%d" % r.choice([1, 5, 1000])))
            acts = [("headers", block, True)]
        feats.append(m)
    else:
        m = r.choice(sorted(RESP_MUTATIONS))
        block = RESP_MUTATIONS[m](block, rs, r)
        acts = [("headers", block, acts[0][2])] + acts[1:]
        feats.append(m)
    return acts, feats, block


# ----------------------------------------------------------------------------------------------------------------------
# semantic normal forms
# ----------------------------------------------------------------------------------------------------------------------

def e2e(fields):
    """(lower name: bytes, value) of end-to-end fields, cookies and framing excluded; fields named by Connection excluded."""
    fields = [((n.encode("latin-1") if isinstance(n, str) else n).lower(), v.strip(b" \t")) for n, v in fields]
    named = set()
    for n, v in fields:
        if n == b"connection":
            named |= {t.strip().lower() for t in v.split(b",")}
    out = []
    for n, v in fields:
        s = n.decode("latin-1")
        if s.startswith(":") or s in HOP or s in FRAMING or n in named or s in ("cookie",):
            continue
        out.append((n, v))
    return out


def cookies_of(fields):
    vals = [v for n, v in fields if (n.encode("latin-1") if isinstance(n, str) else n).lower() == b"cookie"]
    crumbs = []
    for v in vals:
        crumbs += [c.strip() for c in v.split(b";") if c.strip()]
    return len(vals), crumbs


def expected_request_sem(q):
    return {"method": q["method"], "authority": q["authority"], "path": q["path"], "fields": e2e(q["headers"]), "cookies": list(q["cookies"]), "body": q["body"] or b"", "trailers": q["trailers"]}


def sem_of_h1_request(msg):
    hosts = [v for n, v in msg["headers"] if n == "host"]
    target = msg["target"]
    authority = hosts[0] if len(hosts) == 1 else None
    path = target
    m = re.match(rb"^[A-Za-z][A-Za-z0-9+.\-]*://([^/?#]*)(.*)$", target)
    if m:  # absolute-form: the URI's authority wins (RFC 9112 3.2.2)
        authority, path = m.group(1), m.group(2) or b"/"
    ncookie, crumbs = cookies_of(msg["headers"])
    return {"method": msg["method"].encode(), "authority": authority, "path": path, "fields": e2e(msg["headers"]), "cookies": crumbs, "ncookie_fields": ncookie, "body": msg["body"],
            "trailers": [(n.encode(), v) for n, v in msg["trailers"]] or None, "hosts": hosts, "framing": msg["framing"]}


def sem_of_h2_request(rec):
    hd = rec["headers"] or []
    ps = {}
    for n, v in hd:
        if n.startswith(b":"):
            ps.setdefault(n, []).append(v)
    hosts = [v for n, v in hd if n == b"host"]
    auth = ps.get(b":authority", [None])[0]
    if auth is None and len(hosts) == 1:
        auth = hosts[0]
    ncookie, crumbs = cookies_of(hd)
    return {"method": ps.get(b":method", [None])[0], "authority": auth, "path": ps.get(b":path", [None])[0], "scheme": ps.get(b":scheme", [None])[0], "fields": e2e(hd), "cookies": crumbs,
            "body": P.body_of(rec), "trailers": rec["trailers"] or None, "hosts": hosts, "pseudo": ps}


def diff_request(exp, got, to_h1):
    d = []
    for k in ("method", "authority", "path", "fields", "cookies", "body"):
        if exp[k] != got[k]:
            d.append((k, _s(got[k]), _s(exp[k])))
    if got["hosts"] and any(h != exp["authority"] for h in got["hosts"]):
        d.append(("host-field", got["hosts"], exp["authority"]))
    if to_h1 and got.get("ncookie_fields", 0) > 1:
        d.append(("cookie-fields-not-joined", got["ncookie_fields"]))
    # (transparent / host-derived destinations: mitmproxy documents that it sets the scheme from the transport, DESIGN 3.2)
    if not to_h1 and got.get("scheme") not in (exp.get("scheme", b"http"), b"http"):
        d.append(("scheme", got.get("scheme"), exp.get("scheme", b"http")))
    return d


def expected_response_sem(rs):
    return {"status": rs["status"], "fields": e2e(rs["headers"]), "setcookies": list(rs["setcookies"]), "body": rs["body"], "trailers": rs["trailers"]}


def sem_of_h1_response(msg):
    f = msg["headers"]
    return {"status": msg["status"], "fields": [(n, v) for n, v in e2e(f) if n != b"set-cookie"], "setcookies": [v for n, v in f if n == "set-cookie"], "body": msg["body"],
            "trailers": [(n.encode(), v) for n, v in msg["trailers"]] or None, "framing": msg["framing"]}


def sem_of_h2_response(rec):
    hd = rec["headers"] or []
    st = [v for n, v in hd if n == b":status"]
    return {"status": int(st[0]) if len(st) == 1 and st[0].isdigit() else st, "fields": [(n, v) for n, v in e2e(hd) if n != b"set-cookie"], "setcookies": [v for n, v in hd if n == b"set-cookie"],
            "body": P.body_of(rec), "trailers": rec["trailers"] or None}


def diff_response(exp, got):
    return [(k, _s(got[k]), _s(exp[k])) for k in ("status", "fields", "setcookies", "body") if exp[k] != got[k]]


def _s(x):
    return x[:300] if isinstance(x, (bytes, bytearray)) else (x[:40] if isinstance(x, list) else x)


def own_page_h2(rec):
    return rec is not None and rec["headers"] is not None and dict(rec["headers"]).get(b"server", b"").startswith(b"mitmproxy")


# ----------------------------------------------------------------------------------------------------------------------
# classification of genuine findings (conditions on the input / history only)
# ----------------------------------------------------------------------------------------------------------------------

def wire_facts_h1_request(data: bytes):
    """Facts about the bytes mitmproxy wrote on ONE HTTP/1 upstream connection (an h2 client gets one connection per request).
    Read straight off the wire with bytes operations only -- the mechanisms below are decided from these, per exchange."""
    head, sep, after = data.partition(b"\r\n\r\n")
    lines = head.split(b"\r\n")
    rl = lines[0] if lines else b""
    toks = rl.split(b" ")
    names = [l.split(b":", 1)[0].strip().lower() for l in lines[1:] if b":" in l]
    cl = [l.split(b":", 1)[1].strip() for l in lines[1:] if b":" in l and l.split(b":", 1)[0].strip().lower() == b"content-length"]
    target = toks[1] if len(toks) >= 2 else b""
    return {
        # more or fewer than three SP-separated tokens, or HTAB / DEL / other control octets inside the request line
        "ws_in_request_line": bool(rl) and (len(toks) != 3 or any(c <= 0x20 or c == 0x7F for t in toks for c in t)),
        "absolute_form_target": bool(re.match(rb"^[A-Za-z][A-Za-z0-9+.\-]*://", target)),
        # complete head without Content-Length / Transfer-Encoding, yet octets follow it
        "unframed_body": bool(sep) and b"content-length" not in names and b"transfer-encoding" not in names and len(after) > 0,
        # complete head announcing N > 0 octets of which fewer than N follow
        "cl_exceeds_bytes_written": bool(sep) and len(cl) == 1 and cl[0].isdigit() and b"transfer-encoding" not in names and int(cl[0]) > len(after),
        "has_chunked_te": b"transfer-encoding" in names,
        # complete head announcing N octets, more than N follow on a connection that carries a single request
        "bytes_exceed_cl": bool(sep) and len(cl) == 1 and cl[0].isdigit() and b"transfer-encoding" not in names and len(after) > int(cl[0]),
        "no_framing_fields": bool(sep) and b"content-length" not in names and b"transfer-encoding" not in names,
    }


def wire_facts_h1_responses(down: bytes, tag: bytes | None = None):
    """Facts about the bytes written to an HTTP/1 client; with `tag`, only about the response head carrying that x-tag."""
    heads = [m for m in re.finditer(rb"HTTP/1\.[01] ([^\r\n]*)\r\n((?:[^\r\n]+\r\n)*)\r\n", down)]
    facts = {"status_not_three_digits": False, "cl_exceeds_bytes_before_next_head": False}
    for i, m in enumerate(heads):
        fields = m.group(2).lower()
        if tag is not None and b"x-tag: " + tag.lower() not in fields:
            continue
        code = m.group(1).split(b" ", 1)[0]
        if not re.fullmatch(rb"[0-9]{3}", code):
            facts["status_not_three_digits"] = True
        mcl = re.search(rb"(?:^|\r\n)content-length: *([0-9]+)\r\n", fields)
        nxt = heads[i + 1].start() if i + 1 < len(heads) else len(down)
        if mcl and b"transfer-encoding" not in fields and int(mcl.group(1)) > nxt - m.end():
            facts["cl_exceeds_bytes_before_next_head"] = True
    return facts


def pick_window(r, sizes, p=0.45):
    """SETTINGS_INITIAL_WINDOW_SIZE for an HTTP/2 next hop, small enough that the largest body needs several WINDOW_UPDATE round
    trips (flow-control back-pressure in BufferedH2Connection: buffered remainder + END_STREAM marker, credit granted in steps
    smaller than the buffered chunk), large enough to keep the number of scheduler steps bounded.  None = library default."""
    if r.random() >= p or not sizes or max(sizes) == 0:
        return None
    total, big = sum(sizes), max(sizes)
    cands = [w for w in (3, 16, 64, 300, 1000) if total / w <= 200]
    pressure = [w for w in cands if big > 2 * w]
    return r.choice(pressure or cands) if cands else None


def classify(kind, info):
    """Mechanism of a violation.  Decided per exchange from what is observable on the wire of THAT exchange (`wire` = facts about
    the upstream connection that carried it, `down` = facts about the client-bound response), plus the exception sites and which
    kind of message was actually sent -- never from features of sibling exchanges, seeds or exception messages."""
    pair = info.get("pair")
    exc = info.get("exc_sites", set())
    wire = info.get("wire") or {}
    down = info.get("down") or {}
    up_kinds = ("h1-upstream-not-exactly-one-request", "upstream-request-differs")

    # (c) trailers towards an HTTP/1 peer: Http1Client/Http1Server.send raise AssertionError (no branch for *Trailers events); later
    #     events of the same connection then hit @expect assertions and the rest of the event being processed is dropped
    if "AssertionError@_http1.py:send" in exc and exc <= {"AssertionError@_http1.py:send", "AssertionError@utils.py:_check_event_type"} and info.get("trailers_sent_towards_h1"):
        if kind in ("layer-exception", "valid-request-not-answered", "valid-request-not-forwarded", "h1-client-bytes-not-a-response-sequence", "downstream-response-differs"):
            return "h2-trailers-towards-http1-peer-unhandled"
        if kind == "client-h2-rejects-proxy-bytes" and info.get("only_body_length_errors"):
            return "h2-trailers-towards-http1-peer-unhandled"

    if pair in ("h2h1", "h3h1") and kind in up_kinds + ("valid-request-not-answered",):
        # (a) SP / HTAB / DEL of :path or :method visible in the HTTP/1 request line that was written          [fixed be347c8e3]
        if wire.get("ws_in_request_line") and kind in up_kinds:
            return "h2-request-target-or-method-with-whitespace-reaches-http1-request-line"
        # (a') absolute-form request-target written although the client sent an :authority                      [fixed be347c8e3]
        if wire.get("absolute_form_target") and kind == "upstream-request-differs" and info.get("diff_keys") == {"authority", "path"}:
            return "h2-path-in-absolute-form-overrides-authority-at-http1-origin"
        # (b) head without Content-Length/Transfer-Encoding followed by body octets: HTTP/2 DATA written unframed     [known]
        #     (also when the stream was cut before any DATA arrived: the head of a request whose HEADERS frame did not end the stream
        #     already went out without framing, so the origin takes it for a complete body-less request)
        if wire.get("unframed_body") or (wire.get("no_framing_fields") and info.get("ended_on_headers") is False):
            return "h2-request-body-without-content-length-sent-unframed-to-http1"
        # (d) head announces more octets than were written and the HTTP/2 stream had ended on HEADERS          [fixed 8eb744f3e]
        if wire.get("cl_exceeds_bytes_written") and info.get("ended_on_headers") and kind in up_kinds:
            return "h2-request-content-length-without-data-forwarded-to-http1"
    #     (b) when that raw body is itself an HTTP/1 request the origin answers twice; the surplus response hits a finished stream
    # (f) HTTP/3 only (aioquic validates less than hyper-h2): Host differing from :authority, connection-specific fields
    blk = info.get("h3_block") or {}
    #     ... more than one host field (all equal to :authority, so the host/:authority comparison passes)
    if blk.get("multiple_host_fields") and not blk.get("host_differs_from_authority") and not blk.get("connection_specific"):
        if pair == "h3h1" and kind == "upstream-request-differs" and info.get("diff_keys", set()) <= {"authority", "host-field", "ambiguous-block-forwarded"}:
            return "h3-request-multiple-host-fields-forwarded"
        if pair == "h3h2" and kind == "origin-h2-rejects-proxy-bytes":
            return "h3-request-multiple-host-fields-forwarded"
    if pair == "h3h1" and kind == "upstream-request-differs" and blk.get("host_differs_from_authority") and info.get("diff_keys", set()) <= {"authority", "host-field", "ambiguous-block-forwarded"}:
        return "h3-request-host-differing-from-authority-forwarded"
    if pair == "h3h2" and kind == "origin-h2-rejects-proxy-bytes" and blk.get("host_differs_from_authority") and not blk.get("connection_specific"):
        return "h3-request-host-differing-from-authority-forwarded"
    if pair == "h3h2" and kind == "origin-h2-rejects-proxy-bytes" and blk.get("connection_specific"):
        return "h3-request-connection-specific-field-forwarded-to-http2"
    # (g) HTTP/3 only: aioquic compares content-length with the DATA received at the END of the stream; with request streaming
    #     the surplus octets have already been written behind a Content-Length framed HTTP/1 head by then
    if pair == "h3h1" and kind in up_kinds and wire.get("bytes_exceed_cl") and info.get("stream_req"):
        return "h3-streamed-request-data-exceeding-content-length-forwarded-to-http1"
    if pair == "h3h2" and kind == "origin-h2-rejects-proxy-bytes" and blk.get("data_exceeds_cl") and info.get("stream_req") and info.get("only_body_length_errors"):
        return "h3-streamed-request-data-exceeding-content-length-forwarded-to-http2"
    if pair in ("h2h1", "h3h1") and kind == "layer-exception" and info.get("origin_saw_two_requests_after_unframed_head") and exc == {"AssertionError@utils.py:_check_event_type"}:
        return "h2-request-body-without-content-length-sent-unframed-to-http1"

    if pair == "h1h2" and kind in ("h1-client-bytes-not-a-response-sequence", "downstream-response-differs"):
        # (d') response head announcing more octets than follow before the next response head                  [fixed 8eb744f3e]
        if down.get("cl_exceeds_bytes_before_next_head") and info.get("origin_sent_cl_without_data"):
            return "h2-response-content-length-without-data-forwarded-to-http1"
        # (e) status line whose code is not three digits                                                        [fixed e0bd5b42e]
        if down.get("status_not_three_digits"):
            return "h2-response-status-not-three-digits-reaches-http1-status-line"
    return None


# ----------------------------------------------------------------------------------------------------------------------
# one case
# ----------------------------------------------------------------------------------------------------------------------

def replay_towards_h2(flow, opts, r):
    """Send the SAME flow object once more, the way the clientplayback addon does (MockServer below a transparent HttpLayer),
    towards an HTTP/2 origin.  -> (semantic request the origin decoded | None, error text)"""
    from mitmproxy.addons.clientplayback import MockServer
    from mitmproxy.connection import Server

    flow.response = None
    flow.error = None
    client = sansio.make_client("regular")
    origin = []

    def sf(drv, conn):
        conn.alpn = b"h2"
        p = P.H2ServerPeer(lambda peer, sid, rec: [("headers", [(b":status", b"204")], True)], r, name="replay")
        origin.append(p)
        return p

    def top(c):
        c.server = Server(address=(flow.request.host, flow.request.port))
        l = layers.HttpLayer(c, HTTPMode.transparent)
        l.connections[client] = MockServer(flow, c.fork())
        return l

    d2 = sansio.Driver(top, client=client, options=opts, rng=r, addons=[], server_factory=sf, schedule="fifo", max_steps=1500)
    d2.start()
    d2.run()
    d2.teardown()
    if d2.exceptions:
        return None, f"layer exception {d2.exceptions[0][:2]}"
    for p in origin:
        if p.protocol_errors:
            return None, f"h2 origin: {p.protocol_errors[0]}"
        for sid in sorted(p.streams):
            rec = p.streams[sid]
            if rec["headers"] is not None and rec["ended"]:
                return sem_of_h2_request(rec), None
    return None, "no complete request reached the origin"


def run_case(ctx, opts, forced=None):
    """forced = (pair, mutation name): one deterministic cell of the fixed matrix (single exchange, exactly that adversarial class)."""
    r = ctx.rng
    pair = r.choice(PAIRS)
    mode = r.choice(MODES)
    if forced is not None:
        pair = forced[0]
        if len(forced) > 2:
            mode = forced[2]
    cv, sv = pair[:2], pair[2:]
    if cv == "h3" and mode.startswith("reverse"):
        mode = "transparent"  # the HTTP/3 leg drives HttpLayer directly (regular / transparent), see vf/peers_h3.py
    salt = r.getrandbits(32)
    nreq = r.choice([1, 1, 2])
    if forced is not None or cv == "h3":
        nreq = 1
    reqs = [gen_request(r, k, mode, cv) for k in range(nreq)]
    if forced is not None:
        for q in reqs:  # matrix cells isolate ONE adversarial class: the rest of the message is framed conventionally
            q["declare_cl"], q["trailers"] = True, None
            q["feats"] -= {"no-cl", "req-trailers"}
            if q["body"] is not None:
                q["feats"].add("cl")
    by_tag = {q["tag"]: q for q in reqs}
    adv_req = cv in ("h2", "h3") and r.random() < 0.55
    adv_resp = sv == "h2" and r.random() < 0.35
    stream_req = r.random() < 0.2
    stream_resp = r.random() < 0.2
    if forced is not None:
        adv_req, adv_resp, stream_req, stream_resp = (cv != "h1" and forced[1] != "valid-replay"), False, False, False
    replay_twice = (forced is not None and forced[1] == "valid-replay") or r.random() < 0.25
    # flow-control pressure towards h2 next hops: the origin's window limits request bodies, the client's window response bodies
    srv_window = pick_window(r, [len(q["body"] or b"") for q in reqs]) if sv == "h2" else None
    cli_window = pick_window(r, [len(gen_response(salt, q["tag"], q["method"], sv)["body"]) for q in reqs]) if cv == "h2" else None

    responses = {}
    resp_sent = {}  # tag -> what the origin actually rendered (block / bytes)

    def response_for(tag, method):
        if tag not in responses:
            rs = gen_response(salt, tag, method, sv)
            if adv_resp:
                rr = random.Random(f"{salt}/adv/{tag!r}")
                acts, feats, block = make_adversarial_response(rr, rs)
                rs["adv"] = {"acts": acts, "feats": feats, "block": block}
            responses[tag] = rs
        return responses[tag]

    origin_h1, origin_h2 = [], []

    def h1_responder(k, msg, peer):
        m = TAGRE.search(msg["target"]) or TAGRE.search(b"\n".join(v for _, v in msg["headers"]))
        tag = m.group(0) if m else b"?"
        rs = response_for(tag, msg["method"].encode())
        raw, close = render_h1_response(rs)
        resp_sent[tag] = raw
        return raw, close

    def h2_responder(peer, sid, rec):
        hd = dict(rec["headers"] or [])
        m = TAGRE.search(hd.get(b":path", b"")) or TAGRE.search(hd.get(b"x-tag", b""))
        tag = m.group(0) if m else b"?"
        rs = response_for(tag, hd.get(b":method", b"GET"))
        acts = rs["adv"]["acts"] if rs["adv"] else h2_response_actions(rs)
        resp_sent[tag] = acts
        return acts

    def server_factory(drv, conn):
        if sv == "h1":
            p = peers.H1ServerPeer(h1_responder, r, r.choice(["whole", "random"]))
            origin_h1.append((conn, p))
            return p
        conn.alpn = b"h2"
        p = P.H2ServerPeer(h2_responder, r, settings={4: srv_window} if srv_window is not None else None, out_cut=r.choice(["whole", "random"]), name=f"o{len(origin_h2)}")
        origin_h2.append((conn, p))
        return p

    def policy(drv, hook):
        f = getattr(hook, "flow", None)
        if f is None or not hasattr(f, "request"):
            return None
        if hook.name == "requestheaders" and stream_req:
            f.request.stream = True
        elif hook.name == "responseheaders" and stream_resp and f.response is not None:
            f.response.stream = True
        return None

    if cv == "h3":
        client = sansio.make_client(mode, transport="udp")
        client.alpn = b"h3"
        hmode = HTTPMode.regular if mode == "regular" else HTTPMode.transparent
        d = Q.H3Driver(lambda c: layers.HttpLayer(c, hmode), client=client, options=opts, rng=r, addons=[], policy=policy, server_factory=server_factory,
                       schedule=r.choice(["random", "random", "fifo"]), snapshot=sansio.http_snapshot, max_steps=4000)
    else:
        client = sansio.make_client(mode)
        d = sansio.Driver(top_factory(mode), client=client, options=opts, rng=r, addons=[ForceHttp()], policy=policy, server_factory=server_factory,
                          schedule=r.choice(["random", "random", "fifo"]), snapshot=sansio.http_snapshot, max_steps=4000)
    if mode == "transparent":
        d.context.server.address = ("example.com", 80)

    raw_client = False
    client_killed_by_side_finding = False
    if cv == "h3":
        raw_client = True
        script = []
        for k, q in enumerate(reqs):
            if adv_req:
                sc, feats, block, data = make_adversarial_request(r, q, k, force=forced[1] if forced else None)
                q["adv"] = {"feats": feats, "block": block, "data": data, "end_on_headers": sc[0][3]}
                q["feats"] |= set(feats)
                sc = [a[:4] for a in sc]
            else:
                sc = [a if a[0] != "trailers" else ("headers", a[1], a[2], True) for a in h2_request_actions(r, q, k)]
            script += sc
        cpeer = Q.RawH3Client(script, r)
    elif cv == "h1":
        stream_bytes = b"".join(render_h1_request(r, q, mode) for q in reqs)
        cpeer = sansio.ScriptPeer(peers.cut(stream_bytes, r, r.choice(["whole", "random", "random", "bytes"] if len(stream_bytes) < 2000 else ["whole", "random"])))
    else:
        client.alpn = b"h2"
        if adv_req:
            raw_client = True
            script = []
            for k, q in enumerate(reqs):
                if k == 0 or r.random() < 0.5:
                    sc, feats, block, data = make_adversarial_request(r, q, 2 * k + 1, force=forced[1] if forced else None)
                    q["adv"] = {"feats": feats, "block": block, "data": data, "end_on_headers": sc[0][3]}
                    q["feats"] |= set(feats)
                else:
                    sc = [(a[0], 2 * k + 1) + tuple(a[2:]) for a in h2_request_actions(r, q, k)]
                    sc = [a if a[0] != "trailers" else ("headers", a[1], a[2], True) for a in sc]
                script += sc
            cpeer = P.RawH2Client(script, r, cut=r.choice(["whole", "random", "fine"]), settings={4: cli_window} if cli_window is not None else None)
        else:
            script = []
            for k, q in enumerate(reqs):
                script += h2_request_actions(r, q, k)
            cpeer = P.H2ClientPeer(script, r, cut=r.choice(["whole", "random", "fine"]), settings={4: cli_window} if cli_window is not None else None)
    d.attach_client_peer(cpeer)
    d.start()
    d.run()
    client_closed_by_proxy = cpeer.got_eof
    origin_closed_by_proxy = {id(p): p.got_eof for _, p in origin_h1}
    for _, p in origin_h2:
        p.got_eof_before_teardown = p.got_eof
    d.teardown()
    if DEBUG is not None:
        DEBUG(locals())
    if cv == "h3" and cpeer.unencodable:
        ctx.count("h3_block_not_encodable")  # e.g. empty field name: ls-qpack cannot produce it, nothing was sent
        return None
    if d.budget_exceeded or (cv == "h2" and not raw_client and cpeer.script_errors):
        ctx.count("inconclusive_cases")
        return None

    for e in d.exceptions:
        ctx.seen("layer_exceptions", f"{e[0]}@{e[1]}")
    req_feats = sorted(set().union(*[q["feats"] for q in reqs]))
    resp_feats = sorted(set().union(*[rs["feats"] | set((rs["adv"] or {}).get("feats", ())) for rs in responses.values()])) if responses else []
    up_wire = {id(p): wire_facts_h1_request(bytes(p.received)) for _, p in origin_h1}
    up_bytes_all = b"".join(bytes(p.received) for _, p in origin_h1)
    def _h3_block_facts():
        if cv != "h3" or not reqs or reqs[0]["adv"] is None:
            return None
        blk = reqs[0]["adv"]["block"]
        auth = [v for n, v in blk if n == b":authority"]
        return {
            "host_differs_from_authority": bool(auth) and any(n == b"host" and v != auth[0] for n, v in blk),
            "multiple_host_fields": sum(1 for n, v in blk if n == b"host") > 1,
            "data_exceeds_cl": any(n == b"content-length" and v.isdigit() and int(v) < len(reqs[0]["adv"]["data"]) for n, v in blk),
            "connection_specific": any(n.lower() in (b"connection", b"proxy-connection", b"keep-alive", b"transfer-encoding", b"upgrade") or (n.lower() == b"te" and v.strip().lower() != b"trailers") for n, v in blk),
        }

    info = {
        "h3_block": _h3_block_facts(), "stream_req": stream_req,
        "pair": pair, "exc_sites": {f"{e[0]}@{e[1]}" for e in d.exceptions},
        # a message with trailers really was on its way to an HTTP/1 peer: request with trailers whose head reached an HTTP/1 origin,
        # or an h2 origin that sent a trailers block to an HTTP/1 client's exchange
        "trailers_sent_towards_h1": (pair in ("h2h1", "h3h1") and any(q["trailers"] and q["adv"] is None and q["tag"] in up_bytes_all for q in reqs))
        or (pair == "h1h2" and any(any(a[0] == "trailers" for a in acts) for acts in resp_sent.values() if isinstance(acts, list))),
        "origin_saw_two_requests_after_unframed_head": any(up_wire[id(p)]["unframed_body"] and len(ref.parse_requests(bytes(p.received))[1]) > 1 for _, p in origin_h1),
        "origin_sent_cl_without_data": any(
            isinstance(acts, list) and len(acts) == 1 and acts[0][0] == "headers" and acts[0][2] and any(n == b"content-length" and v.isdigit() and int(v) > 0 for n, v in acts[0][1])
            for acts in resp_sent.values()),
    }
    base = {"pair": pair, "mode": mode, "req_feats": req_feats, "resp_feats": resp_feats, "stream_req": stream_req, "stream_resp": stream_resp, "srv_window": srv_window, "cli_window": cli_window, "hooks": d.hook_names()[:40],
            "exceptions": [e[:2] for e in d.exceptions], "client_sent": (repr(cpeer.sent_blocks)[:1200] if cv == "h3" else (getattr(cpeer, "sent_bytes", None) or b"".join(s for s in getattr(cpeer, "segments", []) if isinstance(s, bytes)))[:1200]),
            "matrix_cell": list(forced) if forced else None}

    def viol(kind, extra, more=None):
        ctx.violation(kind, {**base, **extra}, classify(kind, {**info, **(more or {})}))

    ctx.count("layer.exception")
    if d.exceptions:
        viol("layer-exception", {"exc": [e[:3] for e in d.exceptions], "tb": d.exceptions[0][3][-600:]})
    for conn, p in origin_h2:
        ctx.count("peer.protocol")
        if p.protocol_errors:
            viol("origin-h2-rejects-proxy-bytes", {"errors": p.protocol_errors}, {"only_body_length_errors": all(e.startswith("InvalidBodyLengthError") for e in p.protocol_errors)})
    if cv == "h2" and not raw_client:
        ctx.count("peer.protocol")
        head_page = any(q["method"] == b"HEAD" for q in reqs) and all(e.startswith("InvalidBodyLengthError: InvalidBodyLengthError: Expected 0 bytes") for e in cpeer.protocol_errors) and "error" in d.hook_names()
        if cpeer.protocol_errors and head_page:
            # not a translation issue: mitmproxy's OWN error page is sent with a body in answer to an HTTP/2 HEAD request (reported to the coordinator)
            ctx.count("side_finding_h2_error_page_with_body_for_head")
            client_killed_by_side_finding = True  # the h2 client library tore the connection down: sibling streams die with it
        elif cpeer.protocol_errors:
            viol("client-h2-rejects-proxy-bytes", {"errors": cpeer.protocol_errors}, {"only_body_length_errors": all(e.startswith("InvalidBodyLengthError") for e in cpeer.protocol_errors)})

    # ------------------------------------------------------------ upstream: what did the origin decode?
    up_by_tag = {}
    up_wire_by_tag = {}
    untagged_up = []
    if sv == "h1":
        for conn, p in origin_h1:
            data = bytes(p.received)
            if not data:
                continue
            status, msgs, rest = ref.parse_requests(data)
            tags_here = set(TAGRE.findall(data)) & set(by_tag)
            if cv in ("h2", "h3"):
                ctx.count("up.h1.single")
                if status == "incomplete" and not msgs and origin_closed_by_proxy.get(id(p)):
                    # one unfinished message, then mitmproxy closed the connection: the only way to abort an HTTP/1 message that
                    # turned out malformed after its head was streamed; an HTTP/1 recipient discards it
                    ctx.count("aborted_incomplete_then_close")
                    continue
                for t in tags_here:
                    up_wire_by_tag[t] = up_wire[id(p)]
                if status != "ok" or rest or len(msgs) != 1:
                    ended_on_headers = any((by_tag[t]["adv"] or {}).get("end_on_headers") for t in tags_here)
                    viol("h1-upstream-not-exactly-one-request", {"upstream": data[:900], "status": status, "n_messages": len(msgs), "rest_or_reason": _s(rest) if isinstance(rest, (bytes, bytearray)) else rest, "tags": sorted(tags_here), "wire": up_wire[id(p)]},
                         {"wire": up_wire[id(p)], "ended_on_headers": ended_on_headers})
                    for t in tags_here:
                        up_by_tag.setdefault(t, None)
                    continue
            elif status != "ok" or rest:
                viol("h1-upstream-not-a-request-sequence", {"upstream": data[:900], "status": status})
                continue
            for msg in msgs:
                m = TAGRE.search(msg["target"]) or TAGRE.search(b"\n".join(v for _, v in msg["headers"]))
                if m and m.group(0) in by_tag:
                    up_by_tag[m.group(0)] = sem_of_h1_request(msg)
                else:
                    untagged_up.append(msg["raw_head"][:300])
    else:
        for conn, p in origin_h2:
            for sid in sorted(p.streams):
                rec = p.streams[sid]
                if rec["headers"] is None:
                    continue
                blob = b"\n".join(n + b":" + v for n, v in rec["headers"])
                m = TAGRE.search(blob)
                if m and m.group(0) in by_tag:
                    sem = sem_of_h2_request(rec)
                    sem["complete"] = rec["ended"]
                    sem["aborted"] = not rec["ended"] and (rec["reset"] is not None or p.goaway is not None or p.got_eof_before_teardown)
                    up_by_tag[m.group(0)] = sem
                else:
                    untagged_up.append(blob[:300])
    if untagged_up:
        viol("upstream-message-not-attributable-to-a-request", {"heads": untagged_up[:3]})

    # ------------------------------------------------------------ downstream: what did the client decode?
    down_by_tag = {}
    client_outcome = {}
    if cv == "h1":
        down = bytes(d.out[client])
        methods = [q["method"].decode() for q in reqs]
        status, msgs, rest = ref.parse_responses(down, methods, eof=True)
        ctx.count("down.h1.sequence")
        if status == "incomplete" and client_closed_by_proxy:
            ctx.count("aborted_incomplete_then_close")
        elif status != "ok" or rest:
            viol("h1-client-bytes-not-a-response-sequence", {"down": down[:900], "status": status, "rest_or_reason": _s(rest) if isinstance(rest, (bytes, bytearray)) else rest}, {"down": wire_facts_h1_responses(down)})
        finals = [m_ for m_ in msgs if not (100 <= m_["status"] < 200)]
        for i, q in enumerate(reqs):
            msg = next((m_ for m_ in finals if m_["for_request"] == i), None)
            if msg is None:
                client_outcome[q["tag"]] = "closed" if client_closed_by_proxy else "none"
            elif dict(msg["headers"]).get("server", b"").startswith(b"mitmproxy"):
                client_outcome[q["tag"]] = "own-error"
            else:
                client_outcome[q["tag"]] = "response"
                down_by_tag[q["tag"]] = sem_of_h1_response(msg)
        if len(finals) > len(reqs):
            viol("more-responses-than-requests", {"down": down[:900]})
    else:
        for k, q in enumerate(reqs):
            rec = cpeer.streams.get(4 * k if cv == "h3" else 2 * k + 1)
            conn_refused = (cpeer.conn_close is not None) if cv == "h3" else (cpeer.goaway is not None)
            if rec is None or (rec["headers"] is None and rec["reset"] is None):
                client_outcome[q["tag"]] = "goaway" if (conn_refused or client_closed_by_proxy) else "none"
            elif rec["reset"] is not None and not rec["ended"]:
                client_outcome[q["tag"]] = "reset"
            elif own_page_h2(rec):
                client_outcome[q["tag"]] = "own-error"
            else:
                client_outcome[q["tag"]] = "response" if rec["ended"] else "partial"
                down_by_tag[q["tag"]] = sem_of_h2_response(rec)

    # ------------------------------------------------------------ per exchange
    outcomes = []
    for q in reqs:
        tag = q["tag"]
        forwarded = tag in up_by_tag
        got = up_by_tag.get(tag)
        rs = responses.get(tag)
        if q["adv"] is None:
            # ---- valid request
            ctx.count("valid.forwarded")
            rejected_by_sibling = (raw_client or client_killed_by_side_finding) and client_outcome[tag] in ("goaway", "none", "reset")  # an adversarial sibling may take the connection down
            unreached = cv == "h1" and q is not reqs[0] and client_outcome[tag] == "closed"  # an earlier exchange ended the HTTP/1 connection (close-delimited answer, refused response)
            if not forwarded:
                if not rejected_by_sibling and not unreached:
                    viol("valid-request-not-forwarded", {"tag": tag, "client_outcome": client_outcome[tag]})
                outcomes.append("not-forwarded")
                continue
            # an adversarial response of a sibling exchange is refused with a connection error on the shared upstream h2 connection
            upstream_killed = sv == "h2" and adv_resp and len(reqs) > 1
            if got is not None and got.get("aborted") and (rejected_by_sibling or upstream_killed):
                outcomes.append("aborted")  # the client connection went down (adversarial sibling) while this request was still being streamed
                continue
            if got is not None:
                ctx.count("up.semantics")
                exp = expected_request_sem(q)
                df = diff_request(exp, got, sv == "h1")
                if sv == "h1" and q["trailers"]:
                    if got["framing"] == "chunked" and got["trailers"] != q["trailers"]:
                        df.append(("trailers", got["trailers"], q["trailers"]))
                    elif got["framing"] != "chunked":
                        ctx.count("trailers_dropped_cl_framed")
                elif sv == "h2" and got.get("complete") and (got["trailers"] or None) != (q["trailers"] or None):
                    df.append(("trailers", got["trailers"], q["trailers"]))
                if sv == "h2" and not got.get("complete"):
                    df.append(("upstream-stream-not-ended",))
                if df:
                    viol("upstream-request-differs", {"tag": tag, "diff": df}, {"wire": up_wire_by_tag.get(tag), "diff_keys": {x[0] for x in df}, "ended_on_headers": not q["body"] and not q["trailers"]})
        else:
            # ---- adversarial request: rejected or forwarded faithfully
            ctx.count("adversarial.outcome")
            if not forwarded:
                outcomes.append("rejected")
                if client_outcome[tag] == "response":
                    viol("adversarial-request-answered-without-being-forwarded", {"tag": tag})
                continue
            if got is not None and got.get("aborted"):
                ctx.count("aborted_incomplete_then_close")  # h2 upstream: partially streamed, then reset by mitmproxy
                outcomes.append("aborted")
                continue
            if got is not None:
                ctx.count("up.semantics")
                blk = q["adv"]["block"]
                ps = {}
                for n, v in blk:
                    if n.startswith(b":"):
                        ps.setdefault(n, []).append(v)
                dup = [n for n, v in ps.items() if len(v) > 1]
                hosts = [v for n, v in blk if n == b"host"]
                auth = ps.get(b":authority", [None])[0]
                if auth is None and len(hosts) == 1:
                    auth = hosts[0]
                exp = {"method": ps.get(b":method", [None])[0], "authority": auth, "path": ps.get(b":path", [None])[0], "fields": e2e(blk), "cookies": cookies_of(blk)[1], "body": q["adv"]["data"], "trailers": None,
                       "scheme": ps.get(b":scheme", [None])[0]}
                df = diff_request(exp, got, sv == "h1")
                if set(q["adv"]["feats"]) & set(CL_MUTATIONS):
                    # the block contradicts its own DATA frames: which body it "means" is undefined; what must hold is that the
                    # emitted HTTP/1 message is exactly one self-consistently framed message (up.h1.single) or an aborted one
                    df = [x for x in df if x[0] != "body"]
                if dup or len(set(hosts + ([auth] if auth else []))) > 1:
                    df.append(("ambiguous-block-forwarded", dup, hosts))
                if sv == "h2" and not got.get("complete"):
                    df.append(("upstream-stream-not-ended",))
                if df:
                    viol("upstream-request-differs", {"tag": tag, "diff": df, "block": blk[:12]}, {"wire": up_wire_by_tag.get(tag), "diff_keys": {x[0] for x in df}, "ended_on_headers": q["adv"]["end_on_headers"]})
        outcomes.append("forwarded")

        # ---- response leg
        if rs is None:
            continue
        if rs["adv"] is None:
            if client_outcome[tag] != "response":
                rejected_by_sibling = (raw_client or client_killed_by_side_finding) and client_outcome[tag] in ("goaway", "none", "reset", "partial")
                upstream_killed = sv == "h2" and adv_resp and len(reqs) > 1 and client_outcome[tag] in ("own-error", "reset", "closed", "none")
                if q["adv"] is None and not rejected_by_sibling and not upstream_killed:
                    viol("valid-request-not-answered", {"tag": tag, "client_outcome": client_outcome[tag], "origin_sent": _s(resp_sent.get(tag)) if isinstance(resp_sent.get(tag), bytes) else resp_sent.get(tag)}, {"wire": up_wire_by_tag.get(tag)})
                continue
            ctx.count("down.semantics")
            df = diff_response(expected_response_sem(rs), down_by_tag[tag])
            gt = down_by_tag[tag]
            if rs["trailers"]:
                if cv in ("h2", "h3") and gt["trailers"] != rs["trailers"]:
                    df.append(("trailers", gt["trailers"], rs["trailers"]))
                elif cv == "h1" and gt["framing"] == "chunked" and gt["trailers"] != rs["trailers"]:
                    df.append(("trailers", gt["trailers"], rs["trailers"]))
                elif cv == "h1":
                    ctx.count("trailers_dropped_cl_framed")
            if df:
                viol("downstream-response-differs", {"tag": tag, "diff": df}, {"down": wire_facts_h1_responses(bytes(d.out[client]), tag) if cv == "h1" else None})
        else:
            ctx.count("adversarial.outcome")
            if client_outcome[tag] != "response":
                outcomes.append("resp-rejected")
                continue
            ctx.count("down.semantics")
            blk = rs["adv"]["block"]
            st = [v for n, v in blk if n == b":status"]
            sent_body = b"".join(a[1] for a in rs["adv"]["acts"] if a[0] == "data")
            exp = {"status": int(st[0]) if len(st) == 1 and st[0].isdigit() else st, "fields": [(n, v) for n, v in e2e(blk) if n != b"set-cookie"], "setcookies": [v for n, v in blk if n == b"set-cookie"], "body": b"" if rs["nobody"] else sent_body}
            df = diff_response(exp, down_by_tag[tag])
            if set(rs["adv"]["feats"]) & set(RESP_CL_MUTATIONS):
                df = [x for x in df if x[0] != "body"]  # self-contradicting block: see the request side
            if df:
                viol("downstream-response-differs", {"tag": tag, "diff": df, "block": blk[:12]}, {"down": wire_facts_h1_responses(bytes(d.out[client]), tag) if cv == "h1" else None})
            outcomes.append("resp-forwarded")

    # ------------------------------------------------------------ the recorded flow must not be changed by forwarding it, and
    # forwarding the SAME flow object a second time (client replay wiring) must produce an equivalent request
    flows_by_tag = {}
    snap_at_request_hook = {}
    for step, name, hook, snap in d.hooks:
        f = getattr(hook, "flow", None)
        if f is None or snap is None or not snap.get("request"):
            continue
        m = TAGRE.search(snap["request"]["path"].encode("latin-1", "replace"))
        if m and m.group(0) in by_tag:
            flows_by_tag[m.group(0)] = f
            if name == "request":
                snap_at_request_hook[m.group(0)] = snap["request"]
    for tag, before in snap_at_request_hook.items():
        if by_tag[tag]["adv"] is not None or up_by_tag.get(tag) is None:
            continue
        ctx.count("flow.request.unchanged")
        after = sansio.snap_msg(flows_by_tag[tag].request)
        changed = [(k, _s(before[k]) if not isinstance(before[k], tuple) else before[k][:12], _s(after[k]) if not isinstance(after[k], tuple) else after[k][:12])
                   for k in ("headers", "authority", "method", "path", "host", "port", "scheme", "http_version", "content", "trailers") if before[k] != after[k]]
        if changed:
            viol("recorded-request-changed-by-forwarding", {"tag": tag, "changed": changed})
    if replay_twice and not stream_req:
        for q in reqs:
            tag = q["tag"]
            f = flows_by_tag.get(tag)
            if q["adv"] is not None or f is None or client_outcome.get(tag) != "response" or up_by_tag.get(tag) is None or f.request.raw_content is None:
                continue
            got2, rerr = replay_towards_h2(f, opts, r)
            ctx.count("replay.h2.semantics")
            if got2 is None:
                viol("replayed-request-not-forwarded-or-refused-by-h2-origin", {"tag": tag, "detail": rerr})
                continue
            df = diff_request(expected_request_sem(q), got2, False)
            if (got2["trailers"] or None) != (q["trailers"] or None):
                df.append(("trailers", got2["trailers"], q["trailers"]))
            if df:
                viol("replayed-request-differs", {"tag": tag, "diff": df, "pseudo": got2.get("pseudo")})
            outcomes.append("replayed")

    hostile = bool(adv_req and any(q["adv"] for q in reqs)) or any(rs["adv"] for rs in responses.values())
    sig = (pair, mode.split(":")[0], tuple(req_feats), tuple(resp_feats), tuple(sorted(set(outcomes))), stream_req, stream_resp,
           (srv_window is not None and srv_window <= 64, cli_window is not None and cli_window <= 64))
    ctx.seen("outcomes", f"{pair}:{'+'.join(sorted(set(req_feats) - {'body', 'cl', 'no-cl'}))[:80]}=>{','.join(outcomes)}")
    sample = {"pair": pair, "mode": mode, "req_feats": req_feats, "resp_feats": resp_feats, "outcomes": outcomes, "client_outcome": {t.decode(): o for t, o in client_outcome.items()}, "hooks": d.hook_names()[:20]}
    return sig, (cv != sv) or hostile, sample


# Fixed matrix, run before the random cases in every tier: every adversarial pseudo-header / content-length class on every
# (client version with pseudo-headers) x (next-hop version) pair.
MATRIX = [(pair, "valid-replay", mode) for mode in MODES for pair in ("h1h2", "h2h2", "h2h1", "h3h2", "h3h1")] + [
    (pair, m) for pair in ("h2h1", "h2h2", "h3h1", "h3h2") for m in sorted(REQ_MUTATIONS) + CL_MUTATIONS]


def run(ctx):
    tctx, addons = sansio.addon_context()
    opts = tctx.options
    old = opts.http2_ping_keepalive
    opts.http2_ping_keepalive = 0  # keep-alive PING timers would re-arm forever under a scheduler without a clock
    try:
        for i in ctx.cases():
            k = i * ctx.nworkers + ctx.worker  # matrix cell k is run by worker k % nworkers as its case k // nworkers
            forced = MATRIX[k] if k < len(MATRIX) else None
            if forced is not None:
                ctx.count("matrix.cells")
            res = ctx.guard(run_case, ctx, opts, forced, what="c06 case")
            if res is None:
                ctx.case(("aborted",), False)
                continue
            sig, nontrivial, sample = res
            ctx.case(sig, nontrivial, sample)
    finally:
        opts.http2_ping_keepalive = old
