"""C05 -- HTTP/2 streams are isolated and correctly mapped (h2->h2, h2->h1, h1->h2).

Engine A.  The real proxy-mode layer -> HttpLayer stack (Http2Server / Http2Client / BufferedH2Connection / HttpStream) sits
between in-memory peers (vf/peers_h2.py: hyper-h2 state machines wrapped as driver peers; vf/peers.py + vf/ref/http1.py for
the HTTP/1 side).  Every stream s carries a unique tag in its path, in `x-tag`, in every body chunk and in its trailers; the
origin echoes what it saw (headers tag, body, trailers) and adds own chunks derived from the tag it saw.

Monitors
  client.stream     per client stream: a stream nobody reset ends with exactly the response of ITS request (status, x-tag, echoed
                    own body, origin chunks for its tag, trailers); a stream the origin reset ends with a reset / mitmproxy's
                    error answer on THAT stream; no stream ever shows bytes naming another stream's tag
  server.stream     per upstream stream / HTTP/1 upstream request: headers, body and trailers belong to one client stream (a
                    prefix of its body if the client reset it), no client stream appears twice upstream, HTTP/1 upstream
                    connections carry at most one request of an HTTP/2 client
  server.order      per upstream h2 connection: streams are opened (ascending server stream id) in the order in which the requests
                    became ready to be forwarded (completion step of the `request` hook, or of `requestheaders` when streaming)
  flow.request / flow.response   the flow seen by addons carries its own stream's tag, body and trailers only
  peer.protocol     neither h2 state machine (client or origin side; the origin enforces the MAX_CONCURRENT_STREAMS it advertised
                    and that the proxy ACKed) raises a ProtocolError on bytes written by mitmproxy; no GOAWAY from mitmproxy
  m3.concurrency    after every step, on the live Http2Client: whenever a new upstream stream was opened, open_outbound_streams
                    <= the limit last advertised by the origin and ACKed by the proxy
"""
import random
import re

import h2.settings
from mitmproxy.proxy import layers
from mitmproxy.proxy.layers.http import HTTPMode
from mitmproxy.proxy.layers.http._http2 import Http2Client

from vf import peers, peers_h2 as P, peers_h3 as Q, sansio
from vf.ref import http1 as ref

PROPERTY = "C05"
LEVEL = "exploration"
ENGINE = "sansio"
BUDGET = {"quick": (330, 18), "thorough": (40000, 240)}
WORKERS = {"quick": 4, "thorough": 16}
REQUIRED = ["client.stream", "server.stream", "server.order", "flow.request", "flow.response", "peer.protocol", "m3.concurrency", "h3.client.stream", "h3.h1.connections"]
TECHNIQUE = "runtime monitoring: sans-io schedule exploration with tagged streams, echoing hyper-h2 peers and a live concurrency monitor"
RULE = (
    "case = (topology h2->h2 | h2->h1 | h1->h2, proxy mode, 2-12 tagged streams with random frame interleaving and re-cut byte stream, "
    "client/origin RST points, small flow-control windows, origin MAX_CONCURRENT_STREAMS schedule incl. mid-run lowering, origin answers "
    "as separately scheduled actions, optional body streaming); signature = (topology, mode, stream-count bucket, limit schedule, reset "
    "pattern, response-order class, window/streaming flags); non-trivial iff >=2 streams overlapped in time (h1->h2: >=2 requests shared "
    "one upstream h2 connection)"
)
ASSUMPTIONS = [
    "h2->h1 cases give every request body a content-length and no trailers, h1->h2 cases give origin responses a content-length (translation of unframed bodies/trailers is C06's subject)",
    "a stream reset by the client may surface upstream as nothing, a prefix of its request, or the whole request; only foreign content and duplication are refuted for it",
    "the concurrency limit in force is the one the proxy has ACKed (RFC 9113 6.5.3); before the first SETTINGS the origin imposes none",
    "hooks complete in the step they are scheduled (no separate delay), so readiness order = hook completion order observed by the driver",
]
LEVEL_TEXT = (
    "Exploration: hundreds (quick) to tens of thousands (thorough) of generated multi-stream conversations run through the real HTTP/2 "
    "layers under random frame interleavings, segmentations and completion orders. Tags make cross-stream mix-ups, lost or duplicated "
    "streams decidable at both peers and in every hook; the origin-side hyper-h2 state machine independently enforces the advertised "
    "concurrency limit. Decides the executions observed."
)
LEVEL_NOTE = "Trusted: hyper-h2/hpack/hyperframe as peers, vf/ref/http1.py, the sans-io driver's model of ConnectionHandler (vf/sansio.py)."

SC = h2.settings.SettingCodes
TOPOS = ["h2h2"] * 6 + ["h2h1"] * 2 + ["h1h2"] * 2 + ["h3h1"] * 2 + ["h3h2"]
MODES = ["regular", "reverse:http://example.com:80", "transparent"]
HOSTS = [b"example.com", b"other.example:8080"]
TAGRE = re.compile(rb"s\d+x[0-9a-f]{5}")
DEBUG = None  # authoring aid: callable(locals of run_case) invoked after each run
OPEN_PLAN = None  # set by C03's HTTP/2 leg: callable(rng) -> open_plan for the driver (injected connect failures); C05 itself leaves it unset


class ForceHttp:
    def __init__(self):
        self.http = None

    def next_layer(self, nl):
        regular = type(nl.context.client.proxy_mode).__name__ == "RegularMode"
        nl.layer = layers.HttpLayer(nl.context, HTTPMode.regular if regular else HTTPMode.transparent)
        self.http = nl.layer


def top_factory(mode):
    if mode == "regular":
        return lambda c: layers.modes.HttpProxy(c)
    if mode.startswith("reverse"):
        return lambda c: layers.modes.ReverseProxy(c)
    return lambda c: layers.modes.TransparentProxy(c)


# ----------------------------------------------------------------------------------------------------------------------
# generation
# ----------------------------------------------------------------------------------------------------------------------

def filler(rng, tag):
    n = rng.choice([0, 0, 0, 1, 3, 10, 40, 200, 900])
    return (tag + b".") * n


def gen_streams(rng, topo, mode, tier):
    n = rng.choice([2, 2, 3, 3, 4, 5, 6, 8, 10, 12] if topo != "h1h2" else [2, 3, 4, 5, 6])
    streams = []
    for k in range(n):
        tag = b"s%dx%05x" % (k, rng.getrandbits(20))
        chunks = [tag + b":%d;" % i + filler(rng, tag) for i in range(rng.choice([0, 1, 1, 2, 3, 4]))]
        if not chunks:
            end_mode = "headers"
        else:
            end_mode = rng.choice(["data", "data", "empty", "trailers"])
        if topo not in ("h2h2", "h3h2") and end_mode == "trailers":
            end_mode = "data"
        s = {
            "key": k,
            "tag": tag,
            "host": rng.choice(HOSTS) if (mode == "regular" and rng.random() < 0.35) else HOSTS[0],
            "method": rng.choice([b"POST", b"PUT", b"GET"] if chunks else [b"GET", b"GET", b"DELETE", b"POST"]),
            "chunks": chunks,
            "end_mode": end_mode,
            "trailers": [(b"t", tag), (b"t2", tag + b"-2")][: rng.choice([1, 2])] if end_mode == "trailers" else None,
            "rst_at": None,
            "stream_req": rng.random() < 0.2,
            "stream_resp": rng.random() < 0.2,
        }
        streams.append(s)
    return streams


def stream_actions(s, topo):
    hdrs = [(b":method", s["method"]), (b":scheme", b"http"), (b":authority", s["host"]), (b":path", b"/" + s["tag"]), (b"x-tag", s["tag"])]
    if topo in ("h2h1", "h3h1") and s["chunks"]:
        hdrs.append((b"content-length", b"%d" % sum(len(c) for c in s["chunks"])))
    acts = [("headers", s["key"], hdrs, s["end_mode"] == "headers")]
    for i, c in enumerate(s["chunks"]):
        acts.append(("data", s["key"], c, s["end_mode"] == "data" and i == len(s["chunks"]) - 1))
    if s["end_mode"] == "empty":
        acts.append(("data", s["key"], b"", True))
    if s["end_mode"] == "trailers":
        acts.append(("trailers", s["key"], s["trailers"]))
    return acts


def interleave(rng, lists):
    style = rng.choice(["random", "random", "roundrobin", "sequential", "headers-first"])
    lists = [list(l) for l in lists if l]
    out = []
    if style == "sequential":
        for l in lists:
            out += l
        return out, style
    if style == "headers-first":
        for l in lists:
            out.append(l.pop(0))
        lists = [l for l in lists if l]
    while lists:
        if style == "roundrobin":
            for l in list(lists):
                out.append(l.pop(0))
        else:
            l = rng.choice(lists)
            out.append(l.pop(0))
        lists = [l for l in lists if l]
    return out, style


def origin_plan(salt, tag, topo, early):
    """What the origin does with the request tagged `tag` -- a pure function of (salt, tag)."""
    r = random.Random(f"{salt}/{tag!r}")
    plan = {"rst": None, "echo": not early, "own": [], "trailers": None, "cl": False, "h1": "cl"}
    plan["own"] = [b"r" + tag + b":%d;" % i + (tag + b",") * r.choice([0, 0, 2, 30, 300]) for i in range(r.choice([0, 1, 1, 2, 3]))]
    if topo in ("h2h2", "h3h2") and r.random() < 0.4:
        plan["trailers"] = [(b"rt", tag)]
    if topo == "h1h2":
        plan["cl"] = r.random() < 0.85
    if topo in ("h2h1", "h3h1"):
        plan["h1"] = r.choice(["cl", "cl", "chunked", "close"])
    if r.random() < 0.13:
        plan["rst"] = (r.randint(0, 3), r.choice([8, 2, 7, 1]))  # after k answer actions, error code
    return plan


def response_parts(plan, tag, req_body, req_trailers):
    """-> (headers, [body chunks], trailers|None) the origin sends for an undisturbed exchange."""
    chunks = []
    if plan["echo"]:
        chunks.append(b"e[" + req_body + b"]")
    chunks += plan["own"]
    headers = [(b":status", b"200"), (b"x-tag", tag)]
    if plan["cl"]:
        headers.append((b"content-length", b"%d" % sum(len(c) for c in chunks)))
    trailers = None
    if plan["trailers"]:
        trailers = list(plan["trailers"])
        if plan["echo"] and req_trailers:
            trailers += [(b"e-" + n, v) for n, v in req_trailers]
    return headers, chunks, trailers


# ----------------------------------------------------------------------------------------------------------------------
# one case
# ----------------------------------------------------------------------------------------------------------------------

def foreign_tags(data: bytes, own: bytes, all_tags):
    return sorted({t for t in TAGRE.findall(data) if t != own and t in all_tags})


def flat(headers):
    return b"\n".join(n + b": " + v for n, v in (headers or []))


def classify(kind, info):
    """Mechanism from properties of the case / history (never seeds or messages). None = unexplained."""
    # after the crash a body chunk is missing upstream: truncated/short bodies, a hanging or failed stream -- never foreign content
    consequence = not info.get("foreign") and (
        kind in ("client-stream-never-answered", "upstream-stream-not-one-client-stream", "client-stream-response-differs", "undisturbed-stream-reset-or-error-page")
        or (kind == "origin-h2-rejects-proxy-bytes" and info.get("only_body_length_errors"))
    )
    # (1) a peer lowered SETTINGS_INITIAL_WINDOW_SIZE after data was in flight -> stream window negative ->
    #     BufferedH2Connection.send_data slices with the negative window and hyper-h2 raises FlowControlError out of the layer
    if info.get("window_lowered") and info.get("exc_sites") == {"FlowControlError@_http_h2.py:send_data"}:
        if kind == "layer-exception" or consequence:
            return "buffered-h2-send-with-negative-window"
    # (2) request body streamed upstream, origin already answered completely, then the client resets the stream:
    #     the reset is not propagated, the upstream stream stays open and occupies a MAX_CONCURRENT_STREAMS slot for ever
    if kind == "client-stream-never-answered" and info.get("leaked_upstream") and not info.get("forwarded") and not info.get("exc_sites"):
        # (2b) same leak, other path: the client's RST_STREAM reached the proxy WHILE a responseheaders/response hook of that flow
        #      was pending; HttpStream.check_killed then finishes the flow without telling the upstream connection
        if info.get("leak_rst_arrived_during_response_hook"):
            return "upstream-stream-leaked-when-client-reset-arrives-during-pending-response-hook"
        return "upstream-stream-leaked-after-client-reset-of-streamed-request-with-complete-response"
    # (3) HTTP/3 request on stream id 0 towards an HTTP/1 origin that closes the connection without a complete response head:
    #     Http1Client.read_headers tests `if self.stream_id:` (false for 0) and tells nobody, the client stream hangs
    if kind == "client-stream-never-answered" and info.get("topo") == "h3h1" and info.get("h3_stream_id") == 0 and info.get("origin_rst") and not info.get("exc_sites"):
        return "h3-stream-zero-http1-origin-close-not-signalled"
    return None


def client_rst_delivery_step(d, cpeer, key):
    """Driver step in which the segment holding the client's RST_STREAM frame for stream `key` was delivered to the proxy
    (from the bytes the h2 client peer wrote and the sizes of the client segments in the driver log)."""
    sid = getattr(cpeer, "sid_of", {}).get(key)
    data = getattr(cpeer, "sent_bytes", b"")
    if sid is None or not data.startswith(P.PREFACE):
        return None
    pos, end = len(P.PREFACE), None
    while pos + 9 <= len(data):
        length = int.from_bytes(data[pos : pos + 3], "big")
        if data[pos + 3] == 3 and int.from_bytes(data[pos + 5 : pos + 9], "big") & 0x7FFFFFFF == sid:
            end = pos + 9 + length
            break
        pos += 9 + length
    if end is None:
        return None
    cum = 0
    for e in d.log:
        if e[0] == "ev" and e[2].startswith("DataReceived(Client,"):
            cum += int(e[2][len("DataReceived(Client,") : -1])
            if cum >= end:
                return e[1]
    return None


def run_case(ctx, opts):
    r = ctx.rng
    topo = r.choice(TOPOS)
    mode = r.choice(MODES)
    if topo[:2] == "h3" and mode.startswith("reverse"):
        mode = "transparent"  # the HTTP/3 leg drives HttpLayer directly (regular / transparent), see vf/peers_h3.py
    salt = r.getrandbits(32)
    streams = gen_streams(r, topo, mode, ctx.tier)
    # "abort while a hook is pending" scenario (about 6 % of all cases): stream A's request body is streamed upstream, the origin
    # answers early, one of A's response hooks is held, and while it is pending either the client's RST_STREAM for A is delivered
    # or (variant kill) the addon kills the flow in that hook with the rest of A's body still to come; the origin allows ONE
    # concurrent stream and the other streams arrive behind A.  If the upstream stream of A is not aborted they are never opened.
    scen = None
    if topo == "h2h2" and r.random() < 0.1:
        while len(streams) < 3:
            streams = gen_streams(r, topo, mode, ctx.tier)
        streams = streams[: r.choice([3, 4, 5])]
        scen = {"variant": r.choice(["rst", "rst", "kill"]), "hook": r.choice(["responseheaders", "response"]), "held": None, "killed": False, "tag": streams[0]["tag"]}
        for s in streams:
            s["host"], s["stream_req"] = HOSTS[0], False
        a = streams[0]
        a.update(stream_req=True, method=b"POST", chunks=[a["tag"] + b":%d;" % i for i in range(3)], end_mode="data", trailers=None)
    by_tag = {s["tag"]: s for s in streams}
    all_tags = set(by_tag)
    early = scen is not None or (topo in ("h2h2", "h3h2") and r.random() < 0.1)
    plans = {t: origin_plan(salt, t, topo, early) for t in all_tags}
    if scen is not None:
        for pl in plans.values():
            pl["rst"] = None
    full_body = {s["tag"]: b"".join(s["chunks"]) for s in streams}

    # client resets (h2 client only)
    per_stream = []
    for s in streams:
        acts = stream_actions(s, topo)
        if topo != "h1h2" and scen is None and r.random() < 0.15:
            s["rst_at"] = r.randint(1, len(acts))
            acts = acts[: s["rst_at"]] + [("rst", s["key"], r.choice([8, 8, 2, 0]))]
        per_stream.append(acts)

    # origin settings schedule
    init_limit = r.choice([None, None, 1, 2, 3, len(streams)])
    # small windows cost one scheduler round trip per window-full: keep (bytes to move) / window bounded
    total_req = sum(len(b) for b in full_body.values())
    total_resp = total_req + sum(sum(len(c) for c in pl["own"]) for pl in plans.values()) + 4 * len(streams)
    srv_window = r.choice([None, None] + [w for w in (1, 7, 64, 1000) if total_req / w <= 250])
    nplan = r.choice([0, 0, 1, 1, 2])
    limit_plan = [(r.randint(1, max(1, len(streams) - 1)), r.choice([1, 1, 2, 3, 100])) for _ in range(nplan)]
    cli_window = r.choice([None, None] + [w for w in (1, 5, 50, 2000) if total_resp / w <= 250])
    # 'manager' = hyper-h2's WindowManager decides when to return credit.  Only with default windows: after shrinking
    # INITIAL_WINDOW_SIZE below what is already in flight the library's receiver refuses even the empty END_STREAM frame
    # RFC 9113 6.9 allows at a non-positive window, which would be a false alarm of the peer.
    credit = r.choice(["eager", "eager", "manager"])
    if scen is not None:
        init_limit, limit_plan, srv_window, cli_window, credit = 1, [], None, None, "eager"
    srv_credit = credit if srv_window is None else "eager"
    cli_credit = credit if cli_window is None else "eager"

    force = ForceHttp()
    client = sansio.make_client(mode)
    origin_h2: list = []
    origin_h1: list = []
    server_rst_tags: set = set()

    def h2_responder(peer, sid, rec):
        hd = dict(rec["headers"] or [])
        tag = hd.get(b"x-tag", b"?")
        plan = plans.get(tag) or origin_plan(salt, tag, topo, early)
        headers, chunks, trailers = response_parts(plan, tag, P.body_of(rec), rec["trailers"])
        acts = [("headers", headers, not chunks and not trailers)]
        for i, c in enumerate(chunks):
            acts.append(("data", c, trailers is None and i == len(chunks) - 1))
        if trailers:
            acts.append(("trailers", trailers))
        if plan["rst"] is not None:
            k, code = plan["rst"]
            acts = acts[: min(k, len(acts) - 1)] + [("rst", code)]
            server_rst_tags.add(tag)
        return acts

    def h1_responder(k, msg, peer):
        hd = dict(msg["headers"])
        tag = hd.get("x-tag", b"?")
        plan = plans.get(tag) or origin_plan(salt, tag, topo, early)
        _, chunks, _ = response_parts(plan, tag, msg["body"], None)
        body = b"".join(chunks)
        if plan["h1"] == "chunked":
            raw = b"HTTP/1.1 200 OK\r\nx-tag: " + tag + b"\r\nTransfer-Encoding: chunked\r\n\r\n" + b"".join(b"%x\r\n%s\r\n" % (len(c), c) for c in chunks if c) + b"0\r\n\r\n"
        elif plan["h1"] == "close":
            raw = b"HTTP/1.1 200 OK\r\nx-tag: " + tag + b"\r\nConnection: close\r\n\r\n" + body
        else:
            raw = b"HTTP/1.1 200 OK\r\nx-tag: " + tag + b"\r\nContent-Length: %d\r\n\r\n" % len(body) + body
        if plan["rst"] is not None:
            server_rst_tags.add(tag)
            cutat = [0, 9, len(raw) // 2, max(0, len(raw) - 1)][plan["rst"][0]]
            if plan["h1"] == "close" and cutat > raw.find(b"\r\n\r\n"):
                cutat = 9  # a close-delimited body cut after the head is indistinguishable from a shorter body
            return raw[:cutat], True
        return raw, plan["h1"] == "close"

    def server_factory(drv, conn):
        if topo in ("h2h1", "h3h1"):
            p = peers.H1ServerPeer(h1_responder, r, r.choice(["whole", "random", "random"]))
            origin_h1.append((conn, p))
            return p
        conn.alpn = b"h2"
        st = {}
        if init_limit is not None:
            st[SC.MAX_CONCURRENT_STREAMS] = init_limit
        if srv_window is not None:
            st[SC.INITIAL_WINDOW_SIZE] = srv_window
        p = P.H2ServerPeer(
            h2_responder, r, settings=st, settings_plan=[(a, {SC.MAX_CONCURRENT_STREAMS: v}) for a, v in limit_plan],
            respond_on="headers" if early else "end", out_cut=r.choice(["whole", "whole", "random"]), credit=srv_credit, name=f"o{len(origin_h2)}",
        )
        origin_h2.append((conn, p))
        return p

    hook_spans: list = []

    def policy(drv, hook):
        f = getattr(hook, "flow", None)
        if f is None or not hasattr(f, "request"):
            return None
        m = TAGRE.search(f.request.path.encode("latin-1", "replace"))
        s = by_tag.get(m.group(0)) if m else None
        if s is None:
            return None
        born = next((p.born for p in drv.pending if p.cmd is hook), drv.step_no)
        hook_spans.append((s["tag"], hook.name, born, drv.step_no))  # the flow's layer is paused from `born` until this step
        if scen is not None and s["tag"] == scen["tag"] and hook.name == scen["hook"] and scen["held"] is None and not scen["killed"]:
            if scen["variant"] == "kill":
                scen["killed"] = True
                if f.killable:
                    f.kill()
                return None
            pend = next(p for p in drv.pending if p.cmd is hook)
            scen["held"] = pend

            def release(dr, pend=pend, tag=s["tag"], name=hook.name, born=born):
                dr.release(pend)
                hook_spans.append((tag, name, born, dr.step_no + 1))
                return None

            # released once the segment carrying the client's RST_STREAM for A has been delivered to the proxy
            drv.injected.append(("release-held-hook", release, lambda dr, key=s["key"]: client_rst_delivery_step(dr, cpeer, key) is not None))
            return "hold"
        if hook.name == "requestheaders" and s["stream_req"]:
            f.request.stream = True
        elif hook.name == "responseheaders" and s["stream_resp"] and f.response is not None:
            f.response.stream = True
        return None

    # ---- M3: live concurrency monitor
    m3state = {}
    m3viol = []

    def m3(drv):
        http = force.http
        if http is None:
            return
        for conn, l in list(http.connections.items()):
            c = getattr(l, "child_layer", None)
            if not isinstance(c, Http2Client):
                continue
            peer = drv.peers.get(conn)
            if peer is None or peer.h2 is None:
                continue
            st = m3state.setdefault(conn, {"hi": 0, "limit": peer.enforced_limit()})
            hi = c.h2_conn.highest_outbound_stream_id
            limit_now = peer.enforced_limit()
            if hi > st["hi"]:
                n = c.h2_conn.open_outbound_streams
                ctx.count("m3.concurrency")
                if n > max(limit_now, st["limit"]):
                    m3viol.append({"step": drv.step_no, "open_outbound_streams": n, "limit_acked": limit_now, "limit_before_step": st["limit"], "queue": len(c.stream_queue)})
            st["hi"] = hi
            st["limit"] = limit_now

    if topo[:2] == "h3":
        client = sansio.make_client(mode, transport="udp")
        client.alpn = b"h3"
        hmode = HTTPMode.regular if mode == "regular" else HTTPMode.transparent
        d = Q.H3Driver(
            lambda c: layers.HttpLayer(c, hmode), client=client, options=opts, rng=r, addons=[], policy=policy, server_factory=server_factory,
            schedule=r.choice(["random", "random", "random", "fifo"]), snapshot=sansio.http_snapshot, m3=[m3], max_steps=6000,
            complete_bias=r.choice([0.2, 0.5, 0.8]),
        )
        force.http = d.top
    else:
        d = sansio.Driver(
            top_factory(mode), client=client, options=opts, rng=r, addons=[force], policy=policy, server_factory=server_factory,
            schedule=r.choice(["random", "random", "random", "fifo"]), snapshot=sansio.http_snapshot, m3=[m3], max_steps=6000,
            complete_bias=r.choice([0.2, 0.5, 0.8]), open_plan=OPEN_PLAN(r) if OPEN_PLAN is not None else None,
        )
    if mode == "transparent":
        d.context.server.address = ("example.com", 80)

    if topo[:2] == "h3":
        # HTTP/3 client: QUIC stream events of several concurrent requests interleaved (HEADERS / DATA / FIN / RESET_STREAM);
        # stream ids 0, 4, 8, ... are assigned in the order in which the requests first appear
        script, style = interleave(r, per_stream)
        order = []
        for a_ in script:
            if a_[0] == "headers" and a_[1] not in order:
                order.append(a_[1])
        h3_id = {k: i for i, k in enumerate(order)}
        script = [(("headers", h3_id[a_[1]], a_[2], True) if a_[0] == "trailers" else (a_[0], h3_id[a_[1]]) + tuple(a_[2:])) for a_ in script]
        cpeer = Q.RawH3Client(script, r)
        cpeer.by_key_fn = lambda: {k: cpeer.streams.get(4 * i) for k, i in h3_id.items()}
        style = "h3-" + style
    elif topo == "h1h2":
        raws = []
        for s in streams:
            target = (b"http://" + s["host"] if mode == "regular" else b"") + b"/" + s["tag"]
            body = full_body[s["tag"]]
            raws.append(s["method"] + b" " + target + b" HTTP/1.1\r\nHost: " + s["host"] + b"\r\nx-tag: " + s["tag"] + b"\r\nContent-Length: %d\r\n\r\n" % len(body) + body)
        stream_bytes = b"".join(raws)
        cpeer = sansio.ScriptPeer(peers.cut(stream_bytes, r, r.choice(["whole", "random", "random", "bytes"] if len(stream_bytes) < 2500 else ["whole", "random"])))
        style = "pipeline"
    else:
        client.alpn = b"h2"
        if scen is not None:
            a = streams[0]
            acts_a = stream_actions(a, topo)
            if scen["variant"] == "rst":
                a["rst_at"] = 2
                second = [("rst", a["key"], 8)]
            else:
                a["rst_at"] = -1  # disturbed by the addon's kill: treated like a client reset by the monitors
                second = acts_a[2:]
            rest, style = interleave(r, per_stream[1:])
            style = "scenario-" + scen["variant"] + "-" + scen["hook"]

            def a_hook_pending(dr):
                return (scen["held"] is not None or scen["killed"]) and bool(origin_h2) and origin_h2[0][1].settings_acked >= 1

            script = acts_a[:2] + [("gate", a_hook_pending)] + second + rest
        else:
            script, style = interleave(r, per_stream)
        st = {SC.INITIAL_WINDOW_SIZE: cli_window} if cli_window is not None else {}
        total = sum(len(a_[2]) for a_ in script if a_[0] == "data")
        cuts = ["whole", "random", "fine", "fine"] + (["bytes"] if total < 900 and len(streams) <= 5 else [])
        cpeer = P.H2ClientPeer(script, r, cut=r.choice(cuts), settings=st, credit=cli_credit, out_cut=r.choice(["whole", "random"]))
    d.attach_client_peer(cpeer)
    d.start()
    d.run()
    quiescent_hooks = list(d.hooks)
    client_closed_by_proxy = cpeer.got_eof
    d.teardown()
    if DEBUG is not None:
        DEBUG(locals())
    if d.budget_exceeded or (topo[:2] == "h2" and cpeer.script_errors):
        ctx.count("inconclusive_cases")
        return None

    for e in d.exceptions:
        ctx.seen("layer_exceptions", f"{e[0]}@{e[1]}")
    base = {
        "topo": topo, "mode": mode, "tags": [s["tag"] for s in streams], "interleave": style, "init_limit": init_limit, "limit_plan": limit_plan,
        "srv_window": srv_window, "cli_window": cli_window, "early": early, "scenario": (scen["variant"], scen["hook"]) if scen is not None else None, "client_rst": {s["tag"].decode(): s["rst_at"] for s in streams if s["rst_at"] is not None},
        "origin_rst": sorted(t.decode() for t in server_rst_tags), "hooks": d.hook_names()[:80], "exceptions": [e[:2] for e in d.exceptions],
    }

    case_info = {
        "exc_sites": {f"{e[0]}@{e[1]}" for e in d.exceptions},
        "window_lowered": srv_window is not None or cli_window is not None,
        "leaked_upstream": False,
        "leak_rst_arrived_during_response_hook": False,
    }

    def viol(kind, extra, info=None):
        ctx.violation(kind, {**base, **extra}, classify(kind, {**case_info, **(info or {})}))

    # ---- layer exceptions are never expected in this domain
    ctx.count("peer.protocol")
    if d.exceptions:
        viol("layer-exception", {"exc": [e[:3] for e in d.exceptions], "tb": d.exceptions[0][3][-700:]})
    # ---- peer.protocol
    for conn, p in origin_h2:
        ctx.count("peer.protocol")
        if p.protocol_errors:
            viol("origin-h2-rejects-proxy-bytes", {"errors": p.protocol_errors, "limit_log": p.limit_log, "advertised": p.advertised, "max_open_seen": p.max_open_seen},
                 {"only_body_length_errors": all(e.startswith("InvalidBodyLengthError") for e in p.protocol_errors)})
        if p.goaway is not None and p.goaway[0] != 0:
            viol("proxy-sent-goaway-to-origin", {"goaway": p.goaway})
    if topo[:2] == "h2":
        if cpeer.protocol_errors:
            viol("client-h2-rejects-proxy-bytes", {"errors": cpeer.protocol_errors})
        if cpeer.goaway is not None and cpeer.goaway[0] != 0:
            viol("proxy-sent-goaway-to-client", {"goaway": cpeer.goaway})
    if topo[:2] == "h3":
        ctx.count("peer.protocol")
        if cpeer.conn_close is not None or cpeer.decode_errors:
            viol("proxy-closed-h3-connection-or-sent-undecodable-frames", {"conn_close": cpeer.conn_close, "decode_errors": cpeer.decode_errors})
        # one HTTP/1 upstream connection per concurrent HTTP/3 request (HTTP/1 cannot multiplex)
        if topo == "h3h1":
            ctx.count("h3.h1.connections")
            used = [bytes(p.received) for _, p in origin_h1 if p.received]
            heads = sum(len(re.findall(rb"(?m)^(?:GET|POST|PUT|DELETE) /s\d+x[0-9a-f]{5} HTTP/1\.1\r$", u)) for u in used)
            if heads != len(used):
                viol("h3-requests-share-an-http1-upstream-connection", {"connections_used": len(used), "request_heads_written": heads, "upstream": [u[:200] for u in used][:4]})
    for v in m3viol[:1]:
        viol("concurrency-limit-exceeded", v)

    # ---- arrival order of requests at the upstream connection
    ready_step = {}
    flow_iv = {}
    for step, name, hook, snap in quiescent_hooks:
        if snap is None or not snap["request"]:
            continue
        m = TAGRE.search(snap["request"]["path"].encode("latin-1", "replace"))
        if not m:
            continue
        tag = m.group(0)
        iv = flow_iv.setdefault(tag, [step, step])
        iv[1] = step
        s = by_tag.get(tag)
        if s is None:
            continue
        streamed_early = s["stream_req"] and s["end_mode"] != "headers" and topo != "h1h2"
        if topo == "h1h2":
            streamed_early = s["stream_req"] and bool(s["chunks"])
        if name == "requestheaders" and streamed_early:
            ready_step.setdefault(tag, step)
        elif name == "request" and not streamed_early:
            ready_step.setdefault(tag, step)

    # ---- flow.request / flow.response
    for step, name, hook, snap in quiescent_hooks:
        if snap is None or not snap["request"] or name not in ("request", "response"):
            continue
        m = TAGRE.search(snap["request"]["path"].encode("latin-1", "replace"))
        if not m or m.group(0) not in by_tag:
            continue
        tag = m.group(0)
        s = by_tag[tag]
        if name == "request":
            ctx.count("flow.request")
            rq = snap["request"]
            blob = flat(rq["headers"]) + b"\n" + (rq["content"] or b"") + b"\n" + flat(rq["trailers"])
            bad = foreign_tags(blob, tag, all_tags)
            problems = []
            if bad:
                problems.append(("foreign-tags", bad))
            if dict(rq["headers"]).get(b"x-tag") != tag:
                problems.append(("x-tag", dict(rq["headers"]).get(b"x-tag")))
            if not s["stream_req"] and s["rst_at"] is None and rq["content"] != full_body[tag]:
                problems.append(("body", (rq["content"] or b"")[:200], full_body[tag][:200]))
            if s["rst_at"] is None and s["trailers"] and list(rq["trailers"] or ()) != s["trailers"]:
                problems.append(("trailers", rq["trailers"], s["trailers"]))
            if problems:
                viol("flow-request-not-its-own-stream", {"tag": tag, "problems": problems})
        else:
            ctx.count("flow.response")
            rs = snap["response"]
            if rs is None:
                continue
            blob = flat(rs["headers"]) + b"\n" + (rs["content"] or b"") + b"\n" + flat(rs["trailers"])
            bad = foreign_tags(blob, tag, all_tags)
            xt = dict(rs["headers"]).get(b"x-tag")
            own_page = dict(rs["headers"]).get(b"server", b"").startswith(b"mitmproxy")
            if bad or (xt != tag and not own_page):
                viol("flow-response-not-its-own-stream", {"tag": tag, "x-tag": xt, "foreign": bad})

    # ---- server.stream / server.order
    seen_up = {}
    forwarded = 0
    for ci, (conn, p) in enumerate(origin_h2):
        order = []
        for sid in sorted(p.streams):
            rec = p.streams[sid]
            if rec["headers"] is None:
                continue
            ctx.count("server.stream")
            forwarded += 1
            hd = dict(rec["headers"])
            m = TAGRE.search(hd.get(b":path", b""))
            tag = m.group(0) if m else None
            if tag not in by_tag:
                viol("upstream-stream-without-client-stream", {"sid": sid, "headers": rec["headers"]})
                continue
            if tag in seen_up:
                viol("client-stream-duplicated-upstream", {"tag": tag, "first": seen_up[tag], "again": (ci, sid)})
                continue
            seen_up[tag] = (ci, sid)
            order.append(tag)
            s = by_tag[tag]
            body = P.body_of(rec)
            blob = flat(rec["headers"]) + b"\n" + body + b"\n" + flat(rec["trailers"])
            problems = []
            bad = foreign_tags(blob, tag, all_tags)
            if bad:
                problems.append(("foreign-tags", bad))
            if hd.get(b"x-tag") != tag:
                problems.append(("x-tag", hd.get(b"x-tag")))
            if hd.get(b":method") != s["method"] or hd.get(b":authority") != s["host"]:
                problems.append(("pseudo", hd.get(b":method"), hd.get(b":authority")))
            if s["rst_at"] is None:
                # nobody on the client side disturbed this stream: unless the origin answered/reset early, the whole request must arrive
                complete_expected = rec["reset"] is None and not (early or tag in server_rst_tags)
                if rec["ended"] or complete_expected:
                    if body != full_body[tag] or not rec["ended"]:
                        problems.append(("body", body[:200], full_body[tag][:200], rec["ended"]))
                    if (rec["trailers"] or None) != (s["trailers"] or None):
                        problems.append(("trailers", rec["trailers"], s["trailers"]))
                elif not full_body[tag].startswith(body):
                    problems.append(("body-not-prefix", body[:200]))
            elif not full_body[tag].startswith(body):
                problems.append(("body-not-prefix", body[:200]))
            if problems:
                viol("upstream-stream-not-one-client-stream", {"tag": tag, "sid": sid, "problems": problems}, {"foreign": bool(bad) or any(p_[0] != "body" for p_ in problems)})
        ctx.count("server.order")
        expected = sorted([t for t in order if t in ready_step], key=lambda t: ready_step[t])
        got = [t for t in order if t in ready_step]
        if got != expected:
            viol("upstream-streams-opened-out-of-arrival-order", {"upstream_order": got, "ready_order": expected, "ready_step": {t.decode(): ready_step[t] for t in got}, "limit_log": p.limit_log})
    for ci, (conn, p) in enumerate(origin_h1):
        data = bytes(p.received)
        if not data:
            continue
        status, msgs, rest = ref.parse_requests(data)
        ctx.count("server.stream")
        if status == "reject" or len(msgs) > 1:
            viol("h1-upstream-connection-carries-more-than-one-request", {"upstream": data[:600], "status": status, "n": len(msgs)})
            continue
        for msg in msgs:
            forwarded += 1
            m = TAGRE.search(msg["target"])
            tag = m.group(0) if m else None
            if tag not in by_tag:
                viol("upstream-stream-without-client-stream", {"upstream": data[:400]})
                continue
            if tag in seen_up:
                viol("client-stream-duplicated-upstream", {"tag": tag})
                continue
            seen_up[tag] = (ci, 0)
            s = by_tag[tag]
            problems = []
            bad = foreign_tags(data, tag, all_tags)
            if bad:
                problems.append(("foreign-tags", bad))
            if dict(msg["headers"]).get("x-tag") != tag:
                problems.append(("x-tag", dict(msg["headers"]).get("x-tag")))
            if s["rst_at"] is None and (msg["body"] != full_body[tag] or rest):
                problems.append(("body", msg["body"][:200], bytes(rest)[:100]))
            if problems:
                viol("upstream-stream-not-one-client-stream", {"tag": tag, "problems": problems, "upstream": data[:400]})
        if status == "incomplete" and not msgs:
            # a partial request may only belong to a stream the client reset
            m = TAGRE.search(data)
            tag = m.group(0) if m else None
            if tag in by_tag and by_tag[tag]["rst_at"] is None:
                viol("h1-upstream-request-incomplete", {"upstream": data[:400], "tag": tag})

    # an upstream stream the proxy left open although its client stream was reset while the body was streamed and the origin
    # had already sent its complete answer (used by classify only)
    for conn, p in origin_h2:
        for sid, rec in p.streams.items():
            m = TAGRE.search(dict(rec["headers"] or []).get(b":path", b""))
            s_ = by_tag.get(m.group(0)) if m else None
            if s_ is not None and s_["rst_at"] is not None and s_["stream_req"] and not rec["ended"] and rec["reset"] is None and sid in p.finished_answers:
                case_info["leaked_upstream"] = True
                rst_step = client_rst_delivery_step(d, cpeer, s_["key"])
                if rst_step is not None and any(t == s_["tag"] and n in ("responseheaders", "response") and born < rst_step <= done for t, n, born, done in hook_spans):
                    case_info["leak_rst_arrived_during_response_hook"] = True

    # ---- client.stream
    answered_ok = 0
    resp_order = []
    if topo != "h1h2":
        by_key = cpeer.by_key_fn() if topo[:2] == "h3" else cpeer.by_key
        for s in streams:
            tag = s["tag"]
            rec = by_key.get(s["key"])
            ctx.count("client.stream")
            if topo[:2] == "h3":
                ctx.count("h3.client.stream")
            plan = plans[tag]
            got_blob = b""
            if rec is not None:
                got_blob = flat(rec["headers"]) + b"\n" + P.body_of(rec) + b"\n" + flat(rec["trailers"])
            bad = foreign_tags(got_blob, tag, all_tags)
            if bad:
                viol("client-stream-shows-foreign-stream-content", {"tag": tag, "foreign": bad, "record": _short(rec)})
                continue
            if s["rst_at"] is not None:
                continue  # the client gave up on it; only foreign content is refutable
            if rec is None or not (rec["ended"] or rec["reset"] is not None):
                viol("client-stream-never-answered", {"tag": tag, "record": _short(rec), "upstream": seen_up.get(tag), "origin_rst": tag in server_rst_tags},
                     {"forwarded": tag in seen_up, "topo": topo, "origin_rst": tag in server_rst_tags, "h3_stream_id": 4 * h3_id[s["key"]] if topo[:2] == "h3" else None})
                continue
            hd = dict(rec["headers"] or [])
            own_page = hd.get(b"server", b"").startswith(b"mitmproxy")
            if tag in server_rst_tags:
                if rec["reset"] is None and not own_page:
                    viol("origin-reset-not-signalled-on-its-client-stream", {"tag": tag, "record": _short(rec)})
                continue
            if rec["reset"] is not None or own_page:
                viol("undisturbed-stream-reset-or-error-page", {"tag": tag, "record": _short(rec), "upstream": seen_up.get(tag)})
                continue
            eh, ec, et = response_parts(plan, tag, full_body[tag], s["trailers"])
            if topo in ("h2h1", "h3h1"):
                et = None
            problems = []
            if hd.get(b":status") != b"200" or hd.get(b"x-tag") != tag:
                problems.append(("head", rec["headers"]))
            if P.body_of(rec) != b"".join(ec):
                problems.append(("body", P.body_of(rec)[:300], b"".join(ec)[:300]))
            if (rec["trailers"] or None) != (et or None):
                problems.append(("trailers", rec["trailers"], et))
            if problems:
                viol("client-stream-response-differs", {"tag": tag, "problems": problems}, {"foreign": any(p_[0] != "body" for p_ in problems)})
            else:
                answered_ok += 1
        ordered = sorted((rec["order"], k) for k, rec in by_key.items() if rec is not None and rec["order"] is not None)
        resp_order = [k for _, k in ordered]
    else:
        down = bytes(d.out[client])
        methods = [s["method"].decode() for s in streams]
        status, msgs, rest = ref.parse_responses(down, methods, eof=True)
        ctx.count("client.stream")
        if status == "reject":
            viol("client-bytes-not-a-response-sequence", {"down": down[:600], "reason": rest})
        stop = False
        for i, s in enumerate(streams):
            if stop:
                break
            tag = s["tag"]
            plan = plans[tag]
            msg = next((m_ for m_ in msgs if m_["for_request"] == i and not (100 <= m_["status"] < 200)), None)
            ctx.count("client.stream")
            if msg is None and tag in server_rst_tags and client_closed_by_proxy:
                break  # DESIGN 3.4: towards an HTTP/1 client an origin reset may surface as a bare close (CANCEL has no status code)
            if msg is None:
                viol("client-stream-never-answered", {"tag": tag, "down": down[-400:], "n_msgs": len(msgs)})
                break
            hd = dict(msg["headers"])
            own_page = hd.get("server", b"").startswith(b"mitmproxy")
            blob = msg["raw_head"] + msg["body"]
            bad = foreign_tags(blob, tag, all_tags)
            if bad:
                viol("client-stream-shows-foreign-stream-content", {"tag": tag, "foreign": bad, "down": down[:600]})
                break
            if tag in server_rst_tags:
                if not own_page and msg["framing"] != "eof":
                    viol("origin-reset-not-signalled-on-its-client-stream", {"tag": tag, "head": msg["raw_head"]})
                stop = True
                continue
            eh, ec, et = response_parts(plan, tag, full_body[tag], None)
            if own_page or msg["status"] != 200 or hd.get("x-tag") != tag or msg["body"] != b"".join(ec):
                viol("client-stream-response-differs", {"tag": tag, "head": msg["raw_head"], "body": msg["body"][:300], "expected": b"".join(ec)[:300]})
                break
            answered_ok += 1
            if not plan["cl"]:
                stop = True  # close-delimited answer: the connection ends here by design
        resp_order = list(range(answered_ok))

    # ---- signature
    overl = False
    ivs = sorted(flow_iv.values())
    for a, b in zip(ivs, ivs[1:]):
        if b[0] < a[1]:
            overl = True
    if topo == "h1h2":
        overl = any(sum(1 for sid, rec in p.streams.items() if rec["headers"] is not None) >= 2 for _, p in origin_h2)
    nrst_c = sum(1 for s in streams if s["rst_at"] is not None)
    order_class = "in-order" if resp_order == sorted(resp_order) else "reordered"
    nb = len(streams)
    sig = (
        topo, mode.split(":")[0], "2" if nb <= 2 else "3-5" if nb <= 5 else "6-12",
        (init_limit if init_limit in (None, 1, 2, 3) else "n", tuple(v for _, v in limit_plan)),
        (min(nrst_c, 2), min(len(server_rst_tags), 2)), order_class,
        (srv_window is not None and srv_window < 100, cli_window is not None and cli_window < 100, early, any(s["stream_req"] for s in streams), any(s["stream_resp"] for s in streams)),
        (scen["variant"], scen["hook"]) if scen is not None else None,
    )
    if scen is not None:
        ctx.count("scenario.abort_during_hook")
        if scen["killed"] or (scen["held"] is not None and not scen["held"].held):
            ctx.count("scenario.abort_during_hook.effective")  # the hook was reached and the reset/kill happened while it was pending
    ctx.seen("hook_sequences", ",".join(d.hook_names())[:300])
    sample = {"topo": topo, "mode": mode, "streams": len(streams), "interleave": style, "init_limit": init_limit, "limit_plan": limit_plan, "answered_ok": answered_ok, "forwarded": forwarded, "steps": d.step_no, "tags": [s["tag"].decode() for s in streams][:6]}
    return sig, overl and forwarded >= 1, sample


def _short(rec):
    if rec is None:
        return None
    return {"headers": rec["headers"], "body": P.body_of(rec)[:300], "trailers": rec["trailers"], "ended": rec["ended"], "reset": rec["reset"], "events": rec["events"][:30]}


def run(ctx):
    tctx, addons = sansio.addon_context()
    opts = tctx.options
    old = opts.http2_ping_keepalive
    opts.http2_ping_keepalive = 0  # keep-alive PING timers would re-arm forever under a scheduler without a clock
    try:
        for i in ctx.cases():
            res = ctx.guard(run_case, ctx, opts, what="c05 case")
            if res is None:
                ctx.case(("aborted",), False)
                continue
            sig, nontrivial, sample = res
            ctx.case(sig, nontrivial, sample)
    finally:
        opts.http2_ping_keepalive = old
