"""C38 -- flows from older mitmproxy versions load correctly.

Monitors (all reads/migrations run under a deterministic step budget; exhausting it = the migration does not terminate):

  shipped_dump_loads          every shipped dump of a supported version (test/mitmproxy/data/dumpfile-*.mitm except the
                              repository's own unsupported sample dumpfile-010, and test/mitmproxy/data/flows/*.mitm) loads; one
                              flow per record (records counted by the harness's own framing); every loaded flow is a valid
                              current flow (independent schema vf/ref/c38_schema.py, format version = current) and survives
                              save -> load with the same state.  dumpfile-010 must be rejected with FlowReadException naming
                              its version.
  current_state_unchanged     migrate_flow(state of a generated current flow) returns an equal state
  downgraded_state_migrates   a generated current flow is converted BACKWARDS by the harness's own reference converters
                              (vf/ref/c38_downgrade.py, formats 20..10) and read through the real FlowReader: the result must
                              equal the original state except for the fields the old format could not express
  old_address_shapes_preserved  (part of the perturbed replay) every address-typed field of the old state (client address / peername /
                              sockname, server source_address / ip_address / peername / sockname, the same inside an old nested
                              `via`, the {"address":..} wrapper of formats <= 1.0) is given a 2-tuple or an IPv6 4-tuple
                              (host, port, flowinfo, scope_id) with IPv4 / IPv6 / v4-mapped hosts; the migrated flow must carry
                              exactly that address in the corresponding current attribute
  perturbed_history_migrates  intermediate states recorded while the shipped dumps migrate (every converter from (0,11) to 20 is
                              entered) are re-played with their leaf values perturbed type-preservingly through the remaining
                              converter chain: must terminate without error in a schema-valid current flow that survives
                              save -> load
  old_websocket_history_pairs_own_handshake
                              files in format 10/11 built by the harness's own old-format writer with several websocket
                              connections (handshake flows H_i, websocket flows W_i) in interleaved orders (H1 H2 W2 W1, H1 W1 H2 W2,
                              ...), missing handshakes, a re-used handshake id, a second W for one handshake, unrelated flows in
                              between: every flow loads to its exact expected state; each W sits on its OWN handshake (matched
                              by id), the documented http://unknown/ fallback only when its handshake is not earlier in the file
  unknown_version_rejected    states with version = current + k (and other unsupported versions) are rejected with
                              FlowReadException whose message names the version, and for newer versions asks to update
"""
from __future__ import annotations

import copy
import glob
import io
import os

from mitmproxy import exceptions
from mitmproxy import version
from mitmproxy.io import FlowReader
from mitmproxy.io import FlowWriter
from mitmproxy.io import compat

from vf import core
from vf.core import exc_site, short
from vf.gen import flows as G
from vf.ref import c36_tnetstring as T
from vf.ref import c38_downgrade as D
from vf.ref import c38_schema as S

PROPERTY = "C38"
LEVEL = "exploration"
BUDGET = {"quick": (40_000, 12), "thorough": (3_000_000, 150)}
WORKERS = {"quick": 2, "thorough": 16}
REQUIRED = ["shipped_dump_loads", "current_state_unchanged", "downgraded_state_migrates", "perturbed_history_migrates", "unknown_version_rejected", "old_websocket_history_pairs_own_handshake", "old_address_shapes_preserved", "migrated_flow_schema_valid", "migrated_flow_resaves"]
ENGINE = "direct"
TECHNIQUE = "differential against reference backward converters + schema validity and save/load round trip of migrated flows; converter-chain replay of perturbed recorded states"
RULE = (
    "cases: (dump) each shipped dump file once per worker; (identity) a random current flow; (downgrade) a random current flow converted backwards to a "
    "random format 20..10 by the reference converters; (perturb) a state recorded on entry to a random converter while the shipped dumps migrate, with "
    "leaf values replaced type-preservingly (bytes/str/float/int/bool; None toggled only where the dumps show both None and a value at that path; "
    "version, type, ids, certificates, websocket linkage metadata and enumerated literals are kept); (ws-history) 1-4 old-format websocket connections as handshake + websocket flows in a random "
    "interleaving (plus missing handshake / re-used id / second websocket flow / unrelated flow variants); (future) a current state relabelled with an "
    "unsupported version. Signature = (case family, source version, flow kind / dump name, coarse features). Non-trivial: every case except identity of a flow without optional fields"
)
ASSUMPTIONS = [
    "supported versions are those with a converter chain in mitmproxy.io.compat ((0,11) and later); dumpfile-010 is the repository's own unsupported sample",
    "historical state shapes are those reachable from the shipped dumps (http, tcp and websocket flows of formats (0,11)..21) plus the reference backward converters' formats 20..10 for http/websocket/tcp (and udp/dns from format 18 on)",
    "perturbation keeps discriminating fields (version, type, ids, metadata, certificates, opcodes, literals) and draws hosts from ASCII host names",
]
LEVEL_TEXT = (
    "Exploration: all shipped historical dumps are loaded and validated, and the converter chain is exercised with synthetic historical states from two "
    "independent sources (reference backward converters with exact expected results; perturbed recordings of real migrations with validity/round-trip "
    "oracles). Shapes of historical states that neither source produces are not covered."
)
LEVEL_NOTE = "Trusted: the reference backward converters and the current-format schema written for this harness, the shipped dumps as genuine output of old versions."

CUR = version.FLOW_FORMAT_VERSION
DATA = os.path.join(core.REPO, "test", "mitmproxy", "data")
UNSUPPORTED = {"dumpfile-010.mitm"}
STEPS = 300_000


def dump_files():
    return sorted(glob.glob(os.path.join(DATA, "dumpfile-*.mitm"))) + sorted(glob.glob(os.path.join(DATA, "flows", "*.mitm")))


# --------------------------------------------------------------------------------------------- classification

def vkey(v):
    if isinstance(v, int) and not isinstance(v, bool):
        return v
    try:
        return tuple(v)[:2]
    except TypeError:
        return None


def before_12(v):
    k = vkey(v)
    return k is not None and (isinstance(k, tuple) or k < 12)


def classify(source_state, symptom="load-failure", problems=()) -> str | None:
    """Mechanism from the *source* (old-format) state that was migrated, restricted to the symptom that mechanism produces
    (so that a different failure on the same kind of input is still reported as new)."""
    if not isinstance(source_state, dict):
        return None
    g = lambda k: source_state.get(k, source_state.get(k.encode()))  # noqa
    typ, ver = g("type"), g("version")
    typ = typ.decode() if isinstance(typ, bytes) else typ
    if symptom == "load-failure" and typ == "tcp" and before_12(ver):
        # convert_11_12 adds a `websocket` key to every non-websocket flow, TCP flows do not have that attribute
        return "tcp-flow-before-format-12"
    if (symptom == "schema" and problems and all(p.startswith("/websocket/messages") for p in problems) and typ == "websocket" and before_12(ver)
            and any(isinstance(m[2], str) for m in (g("messages") or []) if isinstance(m, (list, tuple)) and len(m) > 2)):
        return "websocket-text-message-str-content-before-format-12"
    return None


# --------------------------------------------------------------------------------------------- oracles on a migrated flow

def guarded_read(data: bytes):
    """-> (flows, error or None, tripped)"""
    b = T.StepBudget(STEPS + 3 * len(data), cpu_seconds=8.0)
    got = []
    try:
        with b:
            for f in FlowReader(io.BytesIO(data)).stream():
                got.append(f)
        return got, None, False
    except T.BudgetExceeded as e:
        return got, e, True
    except Exception as e:  # noqa
        return got, e, False


def check_valid_and_resaves(ctx, f, what, source_state):
    """f is a loaded (migrated) flow: schema-valid current flow that survives save -> load."""
    st = T.norm(f.get_state())
    ctx.count("migrated_flow_schema_valid")
    pr = S.problems(st)
    if pr:
        ctx.violation("migrated-flow-not-a-valid-current-flow", {"what": what, "problems": pr[:5]}, classify(source_state, "schema", pr))
        return None
    ctx.count("migrated_flow_resaves")
    b = io.BytesIO()
    try:
        FlowWriter(b).add(f)
        again, err, tripped = guarded_read(b.getvalue())
    except Exception as e:  # noqa
        ctx.violation("migrated-flow-cannot-be-saved", {"what": what, "exc": short(repr(e))})
        return st
    if err is not None or len(again) != 1:
        ctx.violation("resaved-migrated-flow-does-not-load", {"what": what, "exc": short(repr(err)), "flows": len(again)})
    else:
        st2 = T.norm(again[0].get_state())
        if not T.same(st, st2):
            ctx.violation("resaved-migrated-flow-differs", {"what": what, "diff": T.diff(st, st2)})
    return st


# --------------------------------------------------------------------------------------------- shipped dumps + recording

class Recorder:
    """Wraps every converter in place and records the states entering it."""

    def __init__(self):
        self.orig = dict(compat.converters)
        self.pool: dict = {}
        self.on = False
        self.entered = set()
        for k, fn in self.orig.items():
            compat.converters[k] = self._wrap(k, fn)

    def _wrap(self, k, fn):
        def w(data):
            if self.on:
                self.entered.add(k)
                lst = self.pool.setdefault(k, [])
                if len(lst) < 24:
                    lst.append(copy.deepcopy(data))
            return fn(data)
        w.__name__ = fn.__name__
        return w

    def restore(self):
        compat.converters.update(self.orig)


def phase_dumps(ctx, rec):
    for p in dump_files():
        name = os.path.basename(p)
        data = open(p, "rb").read()
        ctx.count("shipped_dump_loads")
        try:
            records = T.decode_all(data)
        except T.RefError as e:
            ctx.violation("shipped-dump-not-wellformed", {"dump": name, "err": str(e)})
            continue
        versions = sorted({str(vkey(r.get(b"version", r.get("version")))) for r in records})
        rec.on = True
        flows, err, tripped = guarded_read(data)
        rec.on = False
        if name in UNSUPPORTED:
            if not isinstance(err, exceptions.FlowReadException):
                ctx.violation("unsupported-dump-not-rejected", {"dump": name, "flows": len(flows), "exc": short(repr(err))})
            elif "0, 10" not in str(err):
                ctx.violation("unsupported-dump-error-lacks-version", {"dump": name, "msg": str(err)})
            ctx.case(("dump", name, "rejected"), True, {"case": "dump", "dump": name, "outcome": str(err)[:120]} if ctx.worker == 0 else None)
            continue
        if tripped:
            ctx.violation("migration-does-not-terminate", {"dump": name, "steps": str(err)}, None)
        elif err is not None:
            src = records[len(flows)] if len(flows) < len(records) else None
            ctx.violation(f"shipped-dump-fails-to-load:{type(err).__name__}@{exc_site(err.__cause__ or err)}", {"dump": name, "exc": short(repr(err)), "loaded_before": len(flows)}, classify(src))
        elif len(flows) != len(records):
            ctx.violation("shipped-dump-flow-count", {"dump": name, "records": len(records), "flows": len(flows)})
        else:
            for i, f in enumerate(flows):
                check_valid_and_resaves(ctx, f, f"{name}[{i}]", records[i])
        ctx.case(("dump", name, tuple(versions), len(records)), True,
                 {"case": "dump", "dump": name, "versions": versions, "records": len(records), "loaded": len(flows)} if name == "dumpfile-7-websocket.mitm" else None)
    ctx.extra["converters_entered_by_shipped_dumps"] = sorted(str(k) for k in rec.entered)
    ctx.extra["converters_never_entered"] = sorted(str(k) for k in rec.orig if k not in rec.entered)


# --------------------------------------------------------------------------------------------- random cases

def case_identity(ctx):
    r = ctx.rng
    f = G.gen_flow(r, size="small")
    st = f.get_state()
    ref = T.norm(copy.deepcopy(st))
    ctx.count("current_state_unchanged")
    try:
        with T.StepBudget(STEPS, cpu_seconds=8.0):
            out = compat.migrate_flow(st)
        if not T.same(T.norm(out), ref):
            ctx.violation("current-state-changed-by-migration", {"kind": G.kind_of(f), "diff": T.diff(ref, T.norm(out))})
    except T.BudgetExceeded as e:
        ctx.violation("migration-does-not-terminate", {"kind": G.kind_of(f), "steps": str(e), "version": CUR})
    except Exception as e:  # noqa
        ctx.violation("migration-of-current-state-raises", {"kind": G.kind_of(f), "exc": short(repr(e))})
    ft = G.features(f)
    ctx.case(("identity", ft), nontrivial=len(ft) > 1, sample={"case": "identity", "features": ft})


def case_downgrade(ctx):
    r = ctx.rng
    f = G.gen_flow(r, size="small")
    st = T.norm(f.get_state())
    targets = [t for t in D.TARGETS if D.applicable(st, t)]
    if not targets:
        ctx.case(("downgrade", "n/a"), False)
        return
    tgt = r.choice(targets)
    old, exp = D.downgrade(st, tgt)
    ctx.count("downgraded_state_migrates")
    flows, err, tripped = guarded_read(T.encode(old))
    kind = G.kind_of(f)
    wit = {"kind": kind, "format": tgt, "features": G.features(f)}
    if tripped:
        ctx.violation("migration-does-not-terminate", {**wit, "steps": str(err)})
    elif err is not None:
        ctx.violation(f"old-format-state-fails-to-load:{type(err).__name__}@{exc_site(err.__cause__ or err)}", {**wit, "exc": short(repr(err))}, classify(old))
    elif len(flows) != 1:
        ctx.violation("old-format-state-yields-no-flow", wit)
    else:
        got = check_valid_and_resaves(ctx, flows[0], f"downgraded {kind}@{tgt}", old)
        if got is not None and not T.same(got, exp):
            ctx.violation("migrated-state-differs-from-original", {**wit, "diff": T.diff(exp, got)})
    ctx.case(("downgrade", tgt, G.features(f)), True, {"case": "downgrade", "format": tgt, "kind": kind})


# --------------------------------------------------------------------------------------------- old-format websocket histories

def _plain_http(r):
    """Current-format state of a plain HTTP flow usable as old-format source (no websocket, no backup, clean metadata)."""
    while True:
        f = G.gen_flow(r, "http", size="small")
        st = T.norm(f.get_state())
        if D.applicable(st, 10):
            return st


def _old_messages(r):
    out = []
    for _ in range(r.choice([0, 1, 2, 4])):
        text = r.random() < 0.5
        content = r.choice(["hello", "", "日本語 🍇", G.g_str(r)]) if text else G.g_bytes(r)
        out.append([1 if text else 2, r.random() < 0.5, content, r.choice([1612375501, 1612375501.25, 946681200.5]), r.random() < 0.2])
    return out


def case_ws_history(ctx):
    """An old-format (<= 11) file with several websocket connections: handshake flows H_i and websocket flows W_i in an
    interleaved order, optionally with missing handshakes, a re-used handshake id, a second W for the same handshake and
    unrelated flows in between.  Each migrated websocket flow must sit on its OWN handshake."""
    r = ctx.rng
    tgt = r.choice(D.WS_TARGETS)
    n = r.choice([1, 2, 2, 3, 4])
    conns = []
    for i in range(n):
        hs = _plain_http(r)
        hs["response"] = hs["response"] or T.norm(G.gen_response(r, True).get_state())
        hs["response"]["status_code"] = 101
        hs["request"]["path"] = b"/ws/%d" % i
        old_h, exp_h = D.old_handshake(hs, tgt)
        old_w, exp_wb = D.old_websocket_flow(_plain_http(r), tgt, hs["id"], _old_messages(r), r.choice(["client", "server"]), r.choice([1000, 1001, 1005, 1006, 4000]), r.choice(["", "bye", G.g_str(r)]))
        conns.append({"i": i, "old_h": old_h, "exp_h": exp_h, "old_w": old_w, "exp_wb": exp_wb, "missing": r.random() < 0.15})
    # interleaving: every W_i after its H_i; shapes such as H1 H2 W2 W1, H1 W1 H2 W2, H1 H2 W1 W2 all arise
    events = []
    order = [c for c in conns]
    r.shuffle(order)
    pend = []
    todo = list(order)
    while todo or pend:
        if todo and (not pend or r.random() < 0.55):
            c = todo.pop()
            if not c["missing"]:
                events.append(("H", c))
            pend.append(c)
        else:
            c = pend.pop(r.randrange(len(pend)))
            events.append(("W", c))
    feats = set()
    if any(c["missing"] for c in conns):
        feats.add("missing-handshake")
    if n >= 2 and r.random() < 0.15:
        # a second, different handshake flow that re-uses the id of an earlier one, placed right before that connection's W
        c = r.choice([c for c in conns])
        hs2 = _plain_http(r)
        hs2["id"] = c["exp_h"]["id"]
        hs2["request"]["path"] = b"/ws/reused-id"
        old_h2, exp_h2 = D.old_handshake(hs2, tgt)
        k = next(j for j, e in enumerate(events) if e[0] == "W" and e[1] is c)
        events.insert(k, ("H2", {"old_h": old_h2, "exp_h": exp_h2, "i": c["i"]}))
        feats.add("reused-handshake-id")
    if r.random() < 0.15:
        c = r.choice(conns)
        k = next(j for j, e in enumerate(events) if e[0] == "W" and e[1] is c)
        events.insert(r.randint(k + 1, len(events)), ("W", c))  # a second websocket flow naming the same handshake
        feats.add("second-ws-for-handshake")
    if r.random() < 0.4:
        ps = _plain_http(r)
        old_p, exp_p = D.downgrade(ps, tgt)
        events.insert(r.randint(0, len(events)), ("P", {"old": old_p, "exp": exp_p}))
        feats.add("unrelated-flow")
    # expected flows, by an independent model of the pairing
    avail: dict = {}
    consumed = set()
    records, expected, labels = [], [], []
    for kind, c in events:
        if kind in ("H", "H2"):
            records.append(c["old_h"])
            avail[c["exp_h"]["id"]] = c["exp_h"]
            expected.append([c["exp_h"]])
            labels.append(f"{kind}{c['i']}")
        elif kind == "P":
            records.append(c["old"])
            expected.append([c["exp"]])
            labels.append("P")
        else:
            hid = c["old_w"]["metadata"]["websocket_handshake"]
            records.append(c["old_w"])
            labels.append(f"W{c['i']}")
            fb = D.expected_fallback(c["exp_wb"], c["old_w"])
            if hid in avail and hid not in consumed:
                expected.append([D.expected_merged(avail[hid], c["old_w"])])
                consumed.add(hid)
            elif hid in avail:
                # handshake already used by an earlier websocket flow: mitmproxy documents the fallback; either is accepted
                expected.append([fb, D.expected_merged(avail[hid], c["old_w"])])
            else:
                expected.append([fb])
    shape = " ".join(labels)
    overlapping = any(labels[j][0] == "H" and labels[j + 1][0] == "H" for j in range(len(labels) - 1))
    ctx.count("old_websocket_history_pairs_own_handshake")
    ctx.seen("ws_history_shapes", shape)
    data = b"".join(T.encode(x) for x in records)
    flows, err, tripped = guarded_read(data)
    wit = {"format": tgt, "file_order": shape, "features": sorted(feats)}
    if tripped:
        ctx.violation("migration-does-not-terminate", {**wit, "steps": str(err)})
    elif err is not None:
        src = records[len(flows)] if len(flows) < len(records) else None
        ctx.violation(f"old-websocket-history-fails-to-load:{type(err).__name__}@{exc_site(err.__cause__ or err)}", {**wit, "exc": short(repr(err)), "loaded_before": len(flows)}, classify(src))
    elif len(flows) != len(records):
        ctx.violation("old-websocket-history-flow-count", {**wit, "records": len(records), "flows": len(flows)})
    else:
        for j, (f, exps) in enumerate(zip(flows, expected)):
            got = check_valid_and_resaves(ctx, f, f"ws-history {shape} [{j}]", records[j])
            if got is None:
                break
            if not any(T.same(got, e) for e in exps):
                own = exps[-1] if len(exps) > 1 else exps[0]
                on_fallback = got.get("request", {}).get("host") == "unknown" and labels[j][0] == "W" and own["request"]["host"] != "unknown"
                ctx.violation("websocket-flow-not-on-its-own-handshake" if labels[j][0] == "W" else "migrated-state-differs-from-original",
                              {**wit, "flow": j, "label": labels[j], "landed_on_fallback_request": on_fallback, "diff": T.diff(own, got)})
                break
    ctx.case(("ws-history", tgt, min(n, 3), overlapping, tuple(sorted(feats)), shape if len(labels) <= 5 else len(labels)), True,
             {"case": "ws-history", "format": tgt, "file_order": shape, "features": sorted(feats)})


HOSTS_S = ["example.com", "127.0.0.1", "::1", "localhost", "a.b.c.example", "xn--bcher-kva.example", "10.0.0.1", "sub.domain.test"]
KEEP = {"version", "type", "id", "mode", "proxy_mode", "transport_protocol", "cert", "clientcert", "mitmcert", "first_line_format", "form_in", "form_out",
        "is_replay", "close_sender", "websocket", "websocket_handshake", "duplicated", "client_key", "server_accept", "state", "use_ipv6"}
HOSTKEYS = {"host", "address", "ip_address", "source_address", "peer_address", "peername", "sockname", "sni"}
TLSV = ["SSLv3", "TLSv1", "TLSv1.1", "TLSv1.2", "TLSv1.3"]


def skey(k):
    return k.decode("ascii", "replace") if isinstance(k, bytes) else k


def leaf_paths(o, pre=()):
    if isinstance(o, dict):
        for k, v in o.items():
            yield from leaf_paths(v, pre + (k,))
    elif isinstance(o, list):
        for i, v in enumerate(o):
            yield from leaf_paths(v, pre + (i,))
    else:
        yield pre, o


def generic(path):
    return tuple("*" if isinstance(p, int) else skey(p) for p in path)


def new_leaf(r, path, old, none_ok, other_types):
    names = [skey(p) for p in path if not isinstance(p, int)]
    last = names[-1] if names else ""
    if any(n in KEEP for n in names) or "certificate_list" in names or "metadata" in names or "tls_extensions" in names:
        return old
    if isinstance(old, bool):
        return old if last == "sni" else r.random() < 0.5
    if old is None:
        # only towards a scalar type seen at this path in some shipped dump
        if other_types and r.random() < 0.3:
            t = r.choice(sorted(other_types))
            if last == "tls_version":
                return r.choice(TLSV)
            if t == "float":
                return 1.5e9 + r.random() * 1e8
            if t == "int" and "messages" not in names:
                return r.randrange(0, 65536)
            if t == "bytes":
                return r.choice(HOSTS_S).encode() if last in HOSTKEYS else G.g_bytes(r)
            if t == "str":
                return r.choice(HOSTS_S) if last in HOSTKEYS else G.g_str(r)
        return None
    if none_ok and r.random() < 0.12:
        return None
    host_like = any(n in HOSTKEYS for n in names)
    if isinstance(old, int):
        if "messages" in names or "httpversion" in names:
            return old if "messages" in names else r.randrange(0, 10)
        return r.randrange(0, 65536)
    if isinstance(old, float):
        return r.choice([1.5e9 + r.random() * 1e8, float(r.randrange(0, 2 * 10**9)), 0.5])
    if isinstance(old, bytes):
        if host_like:
            return r.choice(HOSTS_S).encode()
        return G.g_bytes(r, big=3000 if last in ("content", "body") else 0)
    if isinstance(old, str):
        if last == "tls_version":
            return r.choice(TLSV + ([old] if old else []))
        if host_like:
            return r.choice(HOSTS_S)
        return G.g_str(r)
    return old


ADDR_HOSTS = ["127.0.0.1", "192.168.0.7", "::1", "::ffff:127.0.0.1", "fe80::1", "2001:db8::2", "::", "0.0.0.0"]
# address-typed fields of old connection states -> attribute of the current connection they end up in
ADDR_FIELDS = {
    "client_conn": {"address": "peername", "peername": "peername", "sockname": "sockname"},
    "server_conn": {"source_address": "sockname", "sockname": "sockname", "ip_address": "peername", "peername": "peername"},
}


def _dget(d, key):
    """(actual key, value) for a str key in a dict whose keys may be bytes (formats <= 0.17)."""
    if key in d:
        return key, d[key]
    if key.encode() in d:
        return key.encode(), d[key.encode()]
    return None, None


def reshape_addresses(r, state, entered) -> dict:
    """Give address-typed fields of an old state the shapes real captures have: (host, port) for IPv4 peers and the
    IPv6 4-tuple (host, port, flowinfo, scope_id) for IPv6 / dual-stack peers (e.g. ['::ffff:127.0.0.1', 53976, 0, 0] in the
    shipped dumpfile-019), with IPv4 / IPv6 / v4-mapped hosts; also inside the {"address": [...], "use_ipv6": ...} wrapper of
    formats <= 1.0 and inside an old nested `via` connection.  Returns {(conn, current attribute): expected value}."""
    expect: dict = {}
    for conn_name, fields in ADDR_FIELDS.items():
        _, conn = _dget(state, conn_name)
        if not isinstance(conn, dict):
            continue
        targets = [(conn, True)]
        _, via = _dget(conn, "via")
        if conn_name == "server_conn" and isinstance(via, dict):
            targets.append((via, False))
        for cdict, top in targets:
            for field, attr in fields.items():
                key, v = _dget(cdict, field)
                holder, hkey = cdict, key
                if isinstance(v, dict):  # formats <= 1.0: {"address": [host, port], "use_ipv6": bool}
                    k2, inner = _dget(v, "address")
                    holder, hkey, v = v, k2, inner
                if not (isinstance(v, list) and len(v) in (2, 4) and isinstance(v[0], (str, bytes)) and isinstance(v[1], int)) or r.random() < 0.4:
                    continue
                host = r.choice(ADDR_HOSTS)
                new = [host.encode() if isinstance(v[0], bytes) else host, r.choice([0, 22, 443, 53976, 65535])]
                if r.random() < 0.5:
                    new += [r.choice([0, 0, 5]), r.choice([0, 0, 2])]
                holder[hkey] = new
                if top and not (field == "ip_address" and isinstance(entered, tuple) and entered < (0, 17)):
                    expect[(conn_name, attr)] = [host] + new[1:]
    return expect


def case_perturb(ctx, rec, typesat):
    r = ctx.rng
    k = r.choice(sorted(rec.pool, key=str))
    src = copy.deepcopy(r.choice(rec.pool[k]))
    leaves = list(leaf_paths(src))
    frac = r.choice([0.05, 0.2, 0.5, 1.0])
    changed = 0
    for path, old in leaves:
        if r.random() > frac:
            continue
        seen = typesat.get((k, generic(path)), set())
        new = new_leaf(r, path, old, "NoneType" in seen, {t for t in seen if t in ("float", "int", "bytes", "str")} if old is None else None)
        if new is not old and not (new == old and type(new) is type(old)):
            o = src
            for p in path[:-1]:
                o = o[p]
            o[path[-1]] = new
            changed += 1
    expect_addr = reshape_addresses(r, src, k) if r.random() < 0.7 else {}
    changed += len(expect_addr)
    typ = skey(src.get("type", src.get(b"type", "?")))
    if typ == "websocket":
        expect_addr = {}  # an old websocket flow is merged onto its handshake flow, whose connections it takes over
    ctx.count("perturbed_history_migrates")
    try:
        data = T.encode(src)
    except (T.RefError, UnicodeEncodeError):
        ctx.case(("perturb", "unencodable"), False)
        return
    flows, err, tripped = guarded_read(data)
    wit = {"entered_converter": str(k), "type": typ, "changed_leaves": changed}
    if tripped:
        ctx.violation("migration-does-not-terminate", {**wit, "steps": str(err)})
    elif err is not None:
        ctx.violation(f"perturbed-historical-state-fails-to-load:{type(err).__name__}@{exc_site(err.__cause__ or err)}", {**wit, "exc": short(repr(err)), "state": short(repr(src), 1500)}, classify(src))
    elif len(flows) != 1:
        ctx.violation("perturbed-historical-state-yields-no-flow", wit)
    else:
        got = check_valid_and_resaves(ctx, flows[0], f"perturbed {typ}@{k}", src)
        if got is not None and expect_addr:
            ctx.count("old_address_shapes_preserved")
            for (conn, attr), want in expect_addr.items():
                if not T.same(got[conn][attr], want):
                    ctx.violation("address-changed-by-migration", {**wit, "field": f"{conn}.{attr}", "expected": want, "got": got[conn][attr]})
                    break
    shapes = tuple(sorted({f"{c}.{a}:{len(v)}" for (c, a), v in expect_addr.items()}))
    ctx.case(("perturb", str(k), typ, min(changed, 3), frac, shapes), changed > 0, {"case": "perturb", "entered_converter": str(k), "type": typ, "changed_leaves": changed})


def case_future(ctx):
    r = ctx.rng
    f = G.gen_flow(r, size="small")
    st = T.norm(f.get_state())
    newer = r.random() < 0.6
    if newer:
        v = CUR + r.choice([1, 1, 2, 10, 1000, 2**40])
    else:
        v = r.choice([[0, 10], [0, 9, 2], [0, 1], 0, 1, 2, 3, -1, [4, 0], [99, 0, 0]])
    st["version"] = v
    ctx.count("unknown_version_rejected")
    flows, err, tripped = guarded_read(T.encode(st))
    wit = {"version": v, "kind": G.kind_of(f)}
    shown = str(v) if isinstance(v, int) else str(tuple(v)[:2])
    if tripped:
        ctx.violation("migration-does-not-terminate", {**wit, "steps": str(err)})
    elif flows:
        ctx.violation("unknown-version-accepted", wit)
    elif not isinstance(err, exceptions.FlowReadException):
        ctx.violation("unknown-version-not-a-flow-read-error", {**wit, "exc": short(repr(err))})
    elif shown not in str(err) or "version" not in str(err):
        ctx.violation("unknown-version-error-does-not-name-version", {**wit, "msg": str(err)})
    elif newer and "update" not in str(err).lower():
        ctx.violation("newer-version-error-lacks-update-hint", {**wit, "msg": str(err)})
    ctx.case(("future", "newer" if newer else "unsupported", shown if not newer else min(v - CUR, 3), G.kind_of(f)), True, {"case": "future", "version": v, "msg": str(err)[:150]})


def run(ctx):
    rec = Recorder()
    try:
        # set-up that consumes real-code output: any exception here is evidence about the code under test, not a harness error
        try:
            phase_dumps(ctx, rec)
        except Exception as e:  # noqa
            ctx.violation(f"shipped-dump-phase-raises:{type(e).__name__}@{exc_site(e)}", {"exc": short(repr(e))})
        typesat: dict = {}
        # formats >= 12 always stored WebSocket message contents as bytes; a str there is only the trace of converting the
        # format-7 dump (reported above on the dump itself) and not a shape a format >= 12 writer produced
        for k, states in rec.pool.items():
            if isinstance(k, int) and k >= 12:
                for s in states:
                    for m in ((s.get("websocket") or {}).get("messages") or []):
                        if isinstance(m[2], str):
                            m[2] = m[2].encode()
        for k, states in rec.pool.items():
            for s in states:
                for path, v in leaf_paths(s):
                    typesat.setdefault((k, generic(path)), set()).add(type(v).__name__)
        if not rec.pool:
            ctx.violation("no-converter-entered-while-loading-shipped-dumps", {"dumps": [os.path.basename(p) for p in dump_files()]})
        for i in ctx.cases():
            m = i % 8
            if m in (0,):
                ctx.guard(case_identity, ctx, what="identity")
            elif m in (1, 2):
                ctx.guard(case_downgrade, ctx, what="downgrade")
            elif m == 3:
                ctx.guard(case_ws_history, ctx, what="ws-history")
            elif m in (4, 5, 6) and rec.pool:
                ctx.guard(case_perturb, ctx, rec, typesat, what="perturb")
            else:
                ctx.guard(case_future, ctx, what="future")
    finally:
        rec.restore()
