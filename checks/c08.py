"""C08 -- upstream connection reuse never sends a request to the wrong destination.

Engine A.  One client connection (HTTP/1 keep-alive/pipelined, or HTTP/2 with concurrent streams) carries a history of
2-12 tagged requests over a small universe of destinations (3 hosts + the upstream proxies' own addresses x 2 ports x
http/https x {no upstream proxy, proxy A (http), proxy B (https)}), in regular, upstream:http, upstream:https and
transparent mode.  A policy addon rewrites host / port / scheme / server_conn.via (in place, or by replacing
flow.server_conn with a fresh Server object carrying another via) in `requestheaders` or `request` for some requests; the driver injects connect failures; peers inject TLS handshake failures, refused CONNECTs and
closes after a response.  Every endpoint is a real in-memory server that speaks TLS iff the first octet is a TLS
record (stdlib ssl, ALPN h2/http1.1), answers CONNECT like a proxy and then serves the tunnel (again TLS or plain),
and speaks HTTP/2 when ALPN selects it -- so https destinations are really served and every request head is seen in
clear by the peer that received it.

Every 4th worker runs the real-handler leg instead (run_handler_leg: real ProxyConnectionHandler.open_connection on the
virtual-time loop, addon re-addressing connections in `server_connect`, dialled address recorded per socket).

Oracles
  obj     (M1) destination table filled at the `request` hook AFTER the policy's rewrite (host, port, scheme, via,
          transport) vs the attributes of flow.server_conn when the response head arrives (the connection object the
          request was forwarded on): address, tls, via, transport_protocol must be equal.
  wire    (M2) every sighting of a tag at a peer vs the destination table: no-proxy destination -> the wire connection's
          attributes AT SendData TIME are address == (host, port), via None, tls == scheme-https, the request was seen
          inside TLS iff https, and not inside a CONNECT tunnel;  proxied destination -> wire connection address == proxy
          address, TLS to the proxy iff the proxy spec is https, and either CONNECT host:port + tunnel-TLS iff https, or
          (upstream mode, plain http) an absolute-form request for http://host:port outside a tunnel.
  attrs   the (address, tls, via, transport) of every Server connection is the same at every SendData on it.
  guard   at response time, assigning a different .address / .via to the flow's open server connection and to every
          open wire connection raises RuntimeError and leaves the attribute unchanged.
  failed  no SendData on a connection object whose OpenConnection failed or whose .error is set and whose transport is gone;
          no flow ends up with a server connection object whose OpenConnection failed.
"""
import re

from mitmproxy import connection as mconn
from mitmproxy.addons.tlsconfig import TlsConfig
from mitmproxy.connection import ConnectionState
from mitmproxy.proxy import commands, layers

from vf import peers as vpeers
from vf import sansio
from vf.gen import c08_peers as P

PROPERTY = "C08"
LEVEL = "exploration"
ENGINE = "sansio"
BUDGET = {"quick": (260, 20), "thorough": (12000, 230)}
WORKERS = {"quick": 4, "thorough": 16}
REQUIRED = ["handler.cases", "handler.open_conn_address", "handler.request_at_socket", "handler.server_connect_rewrites_address", "handler.readdressed_connection_reused", "obj", "wire", "rewrite.server_conn_replaced", "failed", "failed.flow_conn", "wire.direct", "wire.via_connect", "wire.via_plain", "wire.tls", "attrs", "guard.address", "guard.via", "reuse.same_conn", "fault.connect_failed", "fault.tls_failed", "fault.server_close", "client.h1", "client.h2"]
TECHNIQUE = "runtime monitoring: sans-io history exploration, destination table at the request hook vs connection attributes at SendData time and peer-side sightings (real TLS / proxy / h2 peers)"
RULE = (
    "case = (mode, client protocol h1|h2, history of 2-12 requests over <=4 destinations drawn from hosts x ports x scheme x via, "
    "rewrite plan, connect/TLS/CONNECT failures, server closes, schedule); signature = (mode, client protocol, canonical destination "
    "sequence (first 8), via/tls flags, failure kinds, rewrite kinds); non-trivial iff >= 2 distinct final destinations, >= 1 reuse "
    "opportunity (a destination requested twice) and >= 1 request forwarded"
)
ASSUMPTIONS = [
    "every endpoint auto-detects TLS (first octet 0x16) so both http and https destinations on one (host, port) are served; upstream certificates unverified (ssl_insecure; C15's subject)",
    "a request's destination at forwarding time = (request.host, request.port, scheme == https, flow.server_conn.via, transport) as the flow shows at the end of the `request` hook; no request streaming",
    "TCP only (QUIC/HTTP/3 destinations are out of the driver's scope); HTTP/2 upstream only via TLS ALPN as in production",
    "'open' in the assignment clause = ConnectionState.OPEN (both directions)",
    "http2_ping_keepalive is disabled (timer-driven PINGs are unrelated to routing)",
]
LEVEL_TEXT = (
    "Exploration over histories: generated request sequences with destination rewrites and injected failures run through the real "
    "HttpLayer; each forwarded request is located at the peer that received it (decrypted by real TLS where applicable) and compared "
    "with the destination recorded at the request hook, together with the attributes of the connection object at SendData time. "
    "Decides the histories observed; reach comes from small destination universes that force reuse decisions."
)
LEVEL_NOTE = "Trusted: vf/c08handler.py + vf/vloop.py (virtual-time loop, in-memory sockets) for the real-handler leg; vf/sansio.py (driver), vf/gen/c08_peers.py (TLS/proxy/h2 peers on stdlib ssl, python-h2), vf/ref/http1.py."

TAG = re.compile(rb"t\d+-[0-9a-f]{6}")
HOSTS = ["h0.test", "h1.test", "h2.test"]
PORTS = [80, 8443]
PROXY_A = ("http", ("pa.test", 3128))
PROXY_B = ("https", ("pb.test", 3129))
MODES = ["regular"] * 5 + ["upstream:http://pa.test:3128"] * 3 + ["upstream:https://pb.test:3129"] + ["transparent"] * 3


class TlsStartOnly:
    def __init__(self, ta):
        self.tls_start_server = ta.tls_start_server


class Drv(sansio.Driver):
    """Driver that additionally snapshots the target connection's attributes at every SendData (the observation point)."""

    def _command(self, cmd):
        if isinstance(cmd, commands.SendData) and isinstance(cmd.connection, mconn.Server):
            c = cmd.connection
            self.__dict__.setdefault("send_attrs", []).append(
                (self.step_no, c, (tuple(c.address) if c.address else None, c.tls, c.via, c.transport_protocol), self.transports.get(c), c.error, cmd.data[:80])
            )
        super()._command(cmd)


def top_factory(mode):
    if mode == "regular":
        return lambda c: layers.modes.HttpProxy(c)
    if mode.startswith("upstream"):
        return lambda c: layers.modes.HttpUpstreamProxy(c)
    return lambda c: layers.modes.TransparentProxy(c)


def authority(host, port, scheme):
    return host if port == (443 if scheme == "https" else 80) else f"{host}:{port}"


def gen_dest(r, mode, proxy_p=0.12):
    if r.random() < proxy_p:
        host, port = r.choice([PROXY_A[1], PROXY_B[1]])
    else:
        host, port = r.choice(HOSTS), r.choice(PORTS)
    return (host, port, r.choice(["http", "http", "https"]))


def classify(info):
    """Mechanism from the history (never from seeds / messages)."""
    if info.get("kind") == "wire":
        host, port, tls, via, _ = info["dest"]
        # the destination has no upstream proxy, and its (host, port, tls) is exactly the address of an upstream proxy
        # that an EARLIER request on this client connection was sent through (so a connection to it is registered)
        if via is None and any(v is not None and tuple(v[1]) == (host, port) and (v[0] == "https") == tls for v in info["earlier_vias"]):
            return "destination-is-the-address-of-an-upstream-proxy-used-earlier-on-this-connection"
    return None


def run_case(ctx, tctx, chain):
    r = ctx.rng
    mode = r.choice(MODES)
    fam = mode.split(":")[0]
    h2c = fam != "transparent" and r.random() < 0.4
    ctx.count("client.h2" if h2c else "client.h1")
    strategy = r.choice(["eager", "lazy"])
    tctx.options.update(connection_strategy=strategy, ssl_insecure=True, http2_ping_keepalive=0)
    n = r.choice([2, 3, 4, 5, 6, 8, 12])
    via_case = r.random() < 0.3  # the upstream proxy is chosen per request by the addon (like examples/contrib/change_upstream_proxy.py)
    pool = [gen_dest(r, mode, 0.35 if via_case else 0.12) for _ in range(r.choice([1, 2, 2, 3, 4]))]
    d0 = None
    if fam == "transparent":
        d0 = (r.choice(HOSTS), r.choice(PORTS))
    reqs = []
    rewrites = {}
    for k in range(n):
        tag = b"t%d-%06x" % (k, r.getrandbits(24))
        host, port, scheme = r.choice(pool)
        if fam == "transparent":
            host, port, scheme = d0[0], d0[1], "http"
        method = r.choice(["GET", "GET", "POST"])
        body = b"b:" + tag if method == "POST" else b""
        reqs.append({"tag": tag, "host": host, "port": port, "scheme": scheme, "method": method, "body": body})
        if r.random() < (0.6 if fam == "transparent" else 0.3):
            field = r.choice(["host", "port", "scheme", "via", "replace", "dest", "dest"])
            hookname = r.choice(["requestheaders", "request"])
            if field == "host":
                val = r.choice(HOSTS + [PROXY_A[1][0]])
            elif field == "port":
                val = r.choice(PORTS + [3128])
            elif field == "scheme":
                val = r.choice(["http", "https"])
            elif field in ("via", "replace"):
                val = r.choice([None, PROXY_A, PROXY_B])
            else:
                val = r.choice(pool)
            rewrites[tag] = (hookname, field, val)
        elif via_case:
            # in place on the (shared) connection object, or by REPLACING flow.server_conn with a fresh Server carrying the
            # wanted via -- what examples/contrib/change_upstream_proxy.py does when the current object is already open
            rewrites[tag] = (r.choice(["requestheaders", "request"]), r.choice(["via", "replace"]), r.choice([None, None, PROXY_A, PROXY_B]))

    # ---- fault plan
    open_fail_p = r.choice([0, 0, 0.1, 0.25])
    tls_fail_p = r.choice([0, 0, 0.1, 0.25])
    connect_refuse_p = r.choice([0, 0, 0.15])
    close_p = r.choice([0, 0.1, 0.3])
    delay_p = r.choice([0, 0, 0.3])
    alpn_for = {}
    faults = set()

    def alpn_of(key):
        if key not in alpn_for:
            alpn_for[key] = r.choice([["h2", "http/1.1"], ["h2", "http/1.1"], ["http/1.1"], None])
        return alpn_for[key]

    def h1_responder(k, msg, peer):
        m = TAG.search(msg["target"])
        tag = m.group(0) if m else b"none"
        body = b"r:" + tag
        mode_ = "keep"
        if r.random() < close_p:
            mode_ = r.choice(["close-announced", "close-silent"])
            faults.add("server-close")
            ctx.count("fault.server_close")
        head = b"HTTP/1.1 200 OK\r\nx-tag: " + tag + b"\r\nContent-Length: %d\r\n" % len(body)
        if mode_ == "close-announced":
            head += b"Connection: close\r\n"
        return head + b"\r\n" + body, mode_ != "keep"

    def h2_responder(k, rq, peer):
        m = TAG.search(rq["path"] or b"")
        tag = m.group(0) if m else b"none"
        return 200, [(b"x-tag", tag)], b"r:" + tag

    def connect_plan(msg, peer):
        if r.random() < connect_refuse_p:
            faults.add("connect-refused")
            return b"HTTP/1.1 403 Forbidden\r\nContent-Length: 0\r\n\r\n", False
        return b"HTTP/1.1 200 Connection established\r\n\r\n", True

    def origin_app(alpn):
        return P.H2OriginPeer(h2_responder) if alpn == "h2" else P.OriginPeer(h1_responder)

    def tunnel_factory(msg):
        fail = r.random() < tls_fail_p
        return P.AutoTlsPeer(origin_app, fail_tls=fail, alpn=alpn_of(("tunnel", msg["target"])))

    def endpoint_app(alpn):
        if alpn == "h2":
            return P.H2OriginPeer(h2_responder)
        return P.ProxyPeer(h1_responder, connect_plan, tunnel_factory)

    endpoints = []  # (conn, AutoTlsPeer)
    failed_opens = set()

    def server_factory(drv, conn):
        fail = r.random() < tls_fail_p
        p = P.AutoTlsPeer(endpoint_app, fail_tls=fail, alpn=alpn_of(("wire", tuple(conn.address[:2]))))
        endpoints.append((conn, p))
        return p

    def open_plan(drv, conn, nth):
        if r.random() < open_fail_p:
            failed_opens.add(conn)
            faults.add("connect-failed")
            ctx.count("fault.connect_failed")
            return "connection refused (injected)"
        return None

    # ---- policy: rewrites, destination table, object-level observation, guard probes
    dest = {}
    used = {}
    flows = {}
    kinds = set()
    guard_viol = []
    counts = {"ga": 0, "gv": 0, "policy_guard": 0, "replaced": 0}

    def probe(conn):
        if conn.state is not ConnectionState.OPEN:
            return
        for name, other in (("address", ("other.test", 1)), ("via", ("http", ("other.test", 1)))):
            old = getattr(conn, name)
            try:
                setattr(conn, name, other)
            except RuntimeError:
                if getattr(conn, name) != old:
                    guard_viol.append((name, "raised-but-changed", repr(conn)))
            else:
                guard_viol.append((name, "assignment-on-open-connection-did-not-raise", repr(conn)))
                conn.__dict__[name] = old
            counts["ga" if name == "address" else "gv"] += 1

    def policy(drv, hook):
        f = getattr(hook, "flow", None)
        if f is None or not hasattr(f, "request") or f.request is None:
            return None
        m = TAG.search(f.request.path.encode("latin-1", "replace"))
        if not m:
            return None
        tag = m.group(0)
        if hook.name in ("requestheaders", "request"):
            rw = rewrites.get(tag)
            if rw and rw[0] == hook.name:
                _, field, val = rw
                try:
                    if field == "host":
                        f.request.host = val
                    elif field == "port":
                        f.request.port = val
                    elif field == "scheme":
                        f.request.scheme = val
                    elif field == "via":
                        f.server_conn.via = val
                    elif field == "replace":
                        f.server_conn = mconn.Server(address=f.server_conn.address)
                        counts["replaced"] += 1
                        if val is not None:
                            f.server_conn.via = val
                    else:
                        f.request.host, f.request.port, f.request.scheme = val[0], val[1], val[2]
                    kinds.add(f"{hook.name}:{field}")
                except RuntimeError:
                    counts["policy_guard"] += 1
                    kinds.add(f"{hook.name}:{field}:refused")
            if hook.name == "request":
                sc = f.server_conn
                dest[tag] = (f.request.host, f.request.port, f.request.scheme == "https", sc.via, sc.transport_protocol)
                flows[tag] = f
        elif hook.name == "responseheaders":
            sc = f.server_conn
            used[tag] = (tuple(sc.address) if sc.address else None, sc.tls, sc.via, sc.transport_protocol, id(sc), sc.error)
            probe(sc)
            for c in drv.servers:
                probe(c)
        # (never at `request`: the destination is read right after that hook completes, and server_conn.via lives on an
        #  object shared by concurrent streams -- a delayed completion would let another stream's rewrite change it)
        if hook.name in ("requestheaders", "responseheaders") and r.random() < delay_p:
            return "delay"
        return None

    client = sansio.make_client(mode)
    if h2c:
        client.alpn = b"h2"
        client.alpn_offers = [b"h2", b"http/1.1"]
    d = Drv(top_factory(mode), client=client, options=tctx.options, rng=r, addons=chain, policy=policy, server_factory=server_factory,
            open_plan=open_plan, schedule=r.choice(["random", "random", "fifo"]), max_steps=6000)
    d.send_attrs = []
    if fam == "transparent":
        d.context.server.address = d0

    cpeer = None
    if h2c:
        batches = []
        i = 0
        while i < n:
            b = r.choice([1, 2, 3, 4, n])
            batches.append([
                {"key": q["tag"], "body": q["body"], "headers": [(b":method", q["method"].encode()), (b":scheme", q["scheme"].encode()),
                 (b":authority", authority(q["host"], q["port"], q["scheme"]).encode()), (b":path", b"/" + q["tag"])] + ([(b"content-length", b"%d" % len(q["body"]))] if q["body"] else [])}
                for q in reqs[i : i + b]
            ])
            i += b
        cpeer = P.H2ClientPeer(batches)
        d.attach_client_peer(cpeer)
    else:
        raws = []
        for q in reqs:
            au = authority(q["host"], q["port"], q["scheme"])
            target = f"{q['scheme']}://{au}/".encode() + q["tag"] if fam != "transparent" else b"/" + q["tag"]
            raw = q["method"].encode() + b" " + target + b" HTTP/1.1\r\nHost: " + au.encode() + b"\r\n"
            if q["body"]:
                raw += b"Content-Length: %d\r\n" % len(q["body"])
            raws.append(raw + b"\r\n" + q["body"])
        style = r.choice(["pipelined", "sequential", "sequential"])
        segs = []
        if style == "pipelined":
            segs = [raws[0]] + vpeers.cut(b"".join(raws[1:]), r, r.choice(["whole", "random"]))
        else:
            for k, raw in enumerate(raws):
                segs.append((raw, (lambda drv, k=k: bytes(drv.out[client]).count(b"HTTP/1.1 ") >= k) if k else None))
        d.attach_client_peer(sansio.ScriptPeer(segs))
    d.start()
    d.run()
    d.teardown()
    if d.budget_exceeded:
        ctx.count("inconclusive_cases")
        return None
    for e in d.exceptions:
        ctx.seen("layer_exceptions", f"{e[0]}@{e[1]}")
    ctx.seen("hook_sequences", ",".join(d.hook_names())[:200])

    final = [dest.get(q["tag"]) for q in reqs]
    witness = {
        "mode": mode, "client": "h2" if h2c else "h1", "strategy": strategy,
        "requests": [(q["tag"], q["scheme"], q["host"], q["port"], rewrites.get(q["tag"])) for q in reqs],
        "destinations_at_request_hook": [(q["tag"], dest.get(q["tag"])) for q in reqs],
        "faults": sorted(faults), "wire_conns": [(repr(c.address), c.tls, repr(c.via)) for c in d.servers],
        "exceptions": [e[:2] for e in d.exceptions],
    }

    # ---- attrs: constant per connection over all SendData; failed: no write on failed connections
    per_conn = {}
    for step, c, attrs, tstate, err, head in d.send_attrs:
        per_conn.setdefault(id(c), (c, []))[1].append((step, attrs))
        if c in failed_opens or (tstate is None and err):
            ctx.violation("write-on-failed-connection", {**witness, "conn": repr(c), "error": err, "data": head, "open_failed": c in failed_opens}, classify({"kind": "failed"}))
    ctx.count("failed", len(d.send_attrs))
    for tag, f in flows.items():
        ctx.count("failed.flow_conn")
        if f.server_conn in failed_opens:
            ctx.violation("flow-assigned-a-connection-whose-open-failed", {**witness, "tag": tag, "conn": repr(f.server_conn), "error": f.server_conn.error}, classify({"kind": "failed"}))
    for cid, (c, lst) in per_conn.items():
        ctx.count("attrs")
        if len({a for _, a in lst}) != 1:
            ctx.violation("connection-attributes-changed-between-writes", {**witness, "conn": repr(c), "attrs": [a for _, a in lst][:6]}, classify({"kind": "attrs"}))
    send_time = {cid: lst[0][1] for cid, (c, lst) in per_conn.items()}

    # ---- guard
    ctx.count("guard.address", counts["ga"])
    ctx.count("guard.via", counts["gv"])
    ctx.count("guard.in_policy_raised", counts["policy_guard"])
    ctx.count("rewrite.server_conn_replaced", counts["replaced"])
    for g in guard_viol[:3]:
        ctx.violation("open-connection-attribute-assignment:" + g[1], {**witness, "attribute": g[0], "conn": g[2]}, classify({"kind": "guard"}))

    # ---- obj
    n_forwarded = 0
    for q in reqs:
        tag = q["tag"]
        if tag in used:
            n_forwarded += 1
            ctx.count("obj")
            if tag not in dest:
                ctx.violation("response-for-request-without-request-hook", {**witness, "tag": tag}, classify({"kind": "obj"}))
                continue
            want = (((dest[tag][0], dest[tag][1])), dest[tag][2], dest[tag][3], dest[tag][4])
            got = used[tag][:4]
            if got != want:
                ctx.violation("forwarded-on-connection-object-with-other-destination", {**witness, "tag": tag, "destination": want, "server_conn": got}, classify({"kind": "obj", "want": want, "got": got, "mode": mode}))
            if used[tag][5]:
                ctx.violation("forwarded-on-connection-object-with-error", {**witness, "tag": tag, "error": used[tag][5]}, classify({"kind": "obj-error"}))

    # ---- wire: sightings at the peers
    conn_tags = {}
    order_of = {q["tag"]: i for i, q in enumerate(reqs)}

    def earlier_vias(tg):
        if h2c:  # concurrent streams: any other request of the history may have come first
            return [dest[q["tag"]][3] for q in reqs if q["tag"] in dest and q["tag"] != tg]
        return [dest[q["tag"]][3] for q in reqs[: order_of[tg]] if q["tag"] in dest]

    def tags_h1(app):
        out = []
        for m in app.requests:
            t = TAG.search(m["target"])
            if t:
                out.append((t.group(0), m))
        seen = {t for t, _ in out}
        for t in set(TAG.findall(bytes(app.received[app.offset:]))):
            if t not in seen and (b"/" + t) in bytes(app.received):
                out.append((t, None))
        return out

    def tags_of(app):
        if isinstance(app, P.H2OriginPeer):
            out = []
            for rq in app.requests:
                t = TAG.search(rq["path"] or b"")
                if t:
                    out.append((t.group(0), {"h2": True, "target": rq["path"], "authority": rq["authority"]}))
            return out
        return tags_h1(app)

    for conn, ep in endpoints:
        if ep.delegate is None:
            continue
        if ep.tls and not ep.delegate.handshaken:
            if ep.fail_tls:
                faults.add("tls-failed")
                ctx.count("fault.tls_failed")
            continue
        app = ep.app_peer()
        if app is None:
            continue
        attrs = send_time.get(id(conn))
        sightings = []
        if isinstance(app, P.ProxyPeer) and app.connect is not None:
            tgt = app.connect["target"].decode("latin-1")
            th, _, tp = tgt.rpartition(":")
            t = app.tunnel
            if t is not None and t.delegate is not None:
                if t.tls and not t.delegate.handshaken:
                    if t.fail_tls:
                        faults.add("tls-failed")
                        ctx.count("fault.tls_failed")
                else:
                    inner = t.app_peer()
                    if inner is not None:
                        for tg, m in tags_of(inner):
                            sightings.append((tg, m, (th.strip("[]"), int(tp) if tp.isdigit() else -1), t.tls))
        else:
            for tg, m in tags_of(app):
                sightings.append((tg, m, None, None))
        for tg, m, connect_target, tunnel_tls in sightings:
            conn_tags.setdefault(id(conn), []).append(tg)
            ctx.count("wire")
            if ep.tls or tunnel_tls:
                ctx.count("wire.tls")
            if tg not in dest:
                ctx.violation("request-on-the-wire-without-request-hook", {**witness, "tag": tg, "conn": repr(conn.address)}, classify({"kind": "wire-nohook"}))
                continue
            host, port, tls, via, transport = dest[tg]
            problems = []
            if attrs is None:
                problems.append("no SendData recorded for the connection that received the request")
                attrs = (tuple(conn.address), conn.tls, conn.via, conn.transport_protocol)
            a_addr, a_tls, a_via, a_tp = attrs
            if a_tp != "tcp" or transport != "tcp":
                problems.append(f"transport {a_tp}/{transport}")
            if via is None:
                ctx.count("wire.direct")
                if a_addr != (host, port):
                    problems.append(f"connection address {a_addr} != destination {(host, port)}")
                if a_via is not None:
                    problems.append(f"connection via {a_via} but destination has none")
                if a_tls != tls or ep.tls != tls:
                    problems.append(f"connection tls attr={a_tls} seen-in-tls={ep.tls} but destination https={tls}")
                if connect_target is not None:
                    problems.append(f"sent through a CONNECT tunnel to {connect_target} but destination has no upstream proxy")
            else:
                vscheme, vaddr = via
                if a_addr != tuple(vaddr):
                    problems.append(f"connection address {a_addr} != upstream proxy {vaddr}")
                if ep.tls != (vscheme == "https") or a_tls != (vscheme == "https"):
                    problems.append(f"TLS to proxy: attr={a_tls} seen={ep.tls}, proxy scheme {vscheme}")
                if connect_target is not None:
                    ctx.count("wire.via_connect")
                    if connect_target != (host, port):
                        problems.append(f"CONNECT target {connect_target} != destination {(host, port)}")
                    if tunnel_tls != tls:
                        problems.append(f"tunnel TLS={tunnel_tls} but destination https={tls}")
                else:
                    ctx.count("wire.via_plain")
                    if tls:
                        problems.append("https destination sent to the proxy without CONNECT")
                    if fam != "upstream":
                        problems.append("request sent to the proxy without CONNECT outside upstream mode")
                    if m is not None and not m.get("h2"):
                        want_prefix = b"http://" + authority(host, port, "http").encode() + b"/"
                        alt_prefix = b"http://" + f"{host}:{port}".encode() + b"/"
                        if m["target"].startswith(b"/"):
                            # origin-form to the proxy (HTTP/2 client downgraded to HTTP/1): the Host field names the destination
                            hosts = [v for n_, v in m["headers"] if n_ == "host"]
                            if hosts != [authority(host, port, "http").encode()] and hosts != [f"{host}:{port}".encode()]:
                                problems.append(f"origin-form request to the proxy with Host {hosts!r} does not name {(host, port)}")
                        elif not (m["target"].startswith(want_prefix) or m["target"].startswith(alt_prefix)):
                            problems.append(f"absolute-form target {m['target'][:60]!r} does not name {(host, port)}")
            if problems:
                ctx.violation(
                    "request-written-to-wrong-destination",
                    {**witness, "tag": tg, "destination": (host, port, "https" if tls else "http", via), "connection_at_send": attrs, "seen_in_outer_tls": ep.tls,
                     "connect_target": connect_target, "tunnel_tls": tunnel_tls, "problems": problems},
                    classify({"kind": "wire", "dest": dest[tg], "earlier_vias": earlier_vias(tg)}),
                )
    for cid, tg in conn_tags.items():
        if len(tg) >= 2:
            ctx.count("reuse.same_conn")

    fin = [x for x in final if x is not None]
    distinct = len(set(fin))
    reuse_opp = len(fin) - distinct
    order = {}
    pattern = tuple(order.setdefault(x, len(order)) for x in fin)[:8]
    flags = (any(x[2] for x in fin), any(x[3] is not None for x in fin), any(x[3] is not None and x[3][0] == "https" for x in fin))
    sig = (mode.split("//")[0], "h2" if h2c else "h1", pattern, flags, tuple(sorted(faults)), tuple(sorted(k.split(":", 1)[1] for k in kinds)))
    sample = {"mode": mode, "client": "h2" if h2c else "h1", "destinations": [repr(x) for x in final][:12], "faults": sorted(faults),
              "wire_conns": [repr(c.address) for c in d.servers], "forwarded": n_forwarded}
    return sig, distinct >= 2 and reuse_opp >= 1 and n_forwarded >= 1, sample


def run_handler_leg(ctx):
    """Real-handler leg (engine B, vf/c08handler.py): the same HttpLayer inside the real ProxyConnectionHandler on virtual time, so
    that ConnectionHandler.open_connection -- which turns the Server object into a socket -- is mitmproxy's own code.  An addon
    re-addresses some still-closed connections in `server_connect` (documented use); the fake asyncio.open_connection records the
    (host, port) actually dialled per socket and every socket records the request heads it received.
      handler.open_conn_address   connection.address == dialled address for every connection at server_connected
      handler.request_at_socket   every request head is received by the socket of the connection object its flow carries, that
                                  socket was dialled to the address the connection object carries, and that address is the request's
                                  destination (or, for the request that created a connection the hook re-addressed, the hook's choice)"""
    from vf import c08handler as H

    for i in ctx.cases():
        r = ctx.rng
        plan = H.gen_plan(r)
        try:
            res = H.run_plan(plan)
        except Exception as e:  # noqa
            ctx.violation("harness-or-handler-crash", {"leg": "handler", "plan": plan, "exc": repr(e)})
            ctx.case(("handler", "crash"), False)
            continue
        if res.deadlock:
            ctx.count("handler.never_ended")
            ctx.case(("handler", "never-ended"), False)
            continue
        ctx.count("handler.cases")
        witness = {"leg": "handler", "plan": plan, "dialled": [(x["dialled"], x["how"], [t for t in x["tags"]]) for x in res.sockets],
                   "server_connect_hooks": [(b, a) for _, b, a in res.connect_hooks], "hooks": res.hook_names()[:60]}
        changed = {cid: (b, n) for cid, b, n in res.rewritten if b != n}
        for _cid, b, n in res.rewritten:
            ctx.count("handler.server_connect_rewrites_address" if b != n else "handler.server_connect_assigns_same_address")
        by_sock = {}
        for sconn, addr, peer, sockname in res.connected:
            ctx.count("handler.open_conn_address")
            k = sockname[1] - 20000
            dialled = res.sockets[k]["dialled"]
            by_sock[k] = (sconn, addr)
            if addr != dialled or tuple(sconn.address) != dialled:
                ctx.violation("connection-address-differs-from-dialled-address", {**witness, "socket": k, "connection_address": addr, "dialled": dialled,
                              "address_before_server_connect_hook": [b for c_, b, a in res.connect_hooks if c_ is sconn]}, None)
        reused = False
        forwarded = 0
        for k, rec in enumerate(res.sockets):
            for j, tag in enumerate(rec["tags"]):
                ctx.count("handler.request_at_socket")
                forwarded += 1
                problems = []
                dst = res.dest.get(tag)
                if dst is None:
                    problems.append("request on the wire without request hook")
                u = res.used.get(tag)
                if u is not None:
                    if u[2] != rec["sockname"]:
                        problems.append(f"flow.server_conn (sockname {u[2]}) is not the connection of the socket that received the request ({rec['sockname']})")
                    if u[1] != rec["dialled"]:
                        problems.append(f"flow.server_conn.address {u[1]} != dialled address {rec['dialled']} of the socket that received the request")
                if k in by_sock and dst is not None:
                    sconn, caddr = by_sock[k]
                    allowed = {caddr}
                    if j == 0 and id(sconn) in changed:
                        allowed.add(changed[id(sconn)][0])  # the request the connection was created for, before the hook re-addressed it
                    if tuple(dst) not in allowed:
                        problems.append(f"request for {dst} written to the connection for {caddr}")
                    if rec["dialled"] != caddr:
                        problems.append(f"socket dialled to {rec['dialled']} but its connection object says {caddr}")
                    if j >= 1 and id(sconn) in changed:
                        reused = True
                if problems:
                    ctx.violation("request-written-to-socket-of-other-destination", {**witness, "tag": tag, "destination": dst, "socket": k, "dialled": rec["dialled"], "problems": problems}, None)
        if reused:
            ctx.count("handler.readdressed_connection_reused")
        kinds = tuple(sorted({"same" if v == "same" else "other" for k_, v in plan["rewrite"].items() if k_ < len(res.sockets)}))
        sig = ("handler", len(plan["requests"]), plan["pipelined"], kinds, len(res.sockets), reused, bool(plan["rewrite_delay"]))
        ctx.case(sig, bool(changed) and forwarded >= 2, {"leg": "handler", "requests": [(t, h, p) for t, h, p, _ in plan["requests"]], "rewrite": {str(k_): v for k_, v in plan["rewrite"].items()},
                                                        "dialled": [x["dialled"] for x in res.sockets]})


def run(ctx):
    if ctx.worker % 4 == 3:
        return run_handler_leg(ctx)
    tctx, addons = sansio.addon_context(TlsConfig)
    ta = addons[2]
    chain = [addons[1], TlsStartOnly(ta)]
    keep = {k: getattr(tctx.options, k) for k in ("connection_strategy", "ssl_insecure", "http2_ping_keepalive")}
    try:
        for i in ctx.cases():
            res = ctx.guard(run_case, ctx, tctx, chain, what="c08 case")
            if res is None:
                ctx.case(("aborted",), False)
                continue
            ctx.case(*res)
    finally:
        tctx.options.update(**keep)
