"""C50 -- content views always render safely; the DNS view re-encodes faithfully.

Monitors (direct, at the ``mitmproxy.contentviews`` function boundary, inside a real ``taddons.context``):

* render_total      -- ``prettify_message(message, flow, view)`` returns (no exception of any kind, Rust panics included)
                       for every registered view name, ``auto`` and an unknown name, on hostile structured and random bodies
                       wrapped as HTTP request/response, TCP, UDP, WebSocket and DNS messages with matching / mismatching
                       / missing content types and content encodings.
* render_no_control -- the returned ``text`` is a ``str`` without any Unicode-Cc character other than TAB/LF/CR
                       (C0, DEL and C1).
* dns_reencode      -- for generated DNS wire messages x (vf/gen/c50_dnsgen.py, decoded by the private RFC 1035 reference
                       vf/ref/c50_dns.py): ``reencode_message(prettify_message(x).text)`` decodes, per the reference, to the
                       same header fields (incl. the three reserved/AD/CD bits), questions and records (names compared
                       case-insensitively, RDATA of name-bearing well-known types compared after decompression).
"""
import gzip
import logging
import re
import unicodedata
import zlib

from mitmproxy import contentviews
from mitmproxy import dns as mdns
from mitmproxy import tcp
from mitmproxy import udp
from mitmproxy import websocket
from mitmproxy.test import taddons
from mitmproxy.test import tflow
from vf.core import exc_site
from vf.core import short
from vf.gen import c50_bodies as B
from vf.gen import c50_dnsgen as G
from vf.gen.c50_timeout import Hang
from vf.gen.c50_timeout import guard
from vf.ref import c50_dns as D
from wsproto.frame_protocol import Opcode

PROPERTY = "C50"
LEVEL = "exploration"
ENGINE = "direct"
TECHNIQUE = "totality + output scan of prettify_message over all views; DNS view round trip against an independent RFC 1035 decoder"
BUDGET = {"quick": (2000, 14), "thorough": (200_000, 200)}
WORKERS = {"quick": 2, "thorough": 16}
REQUIRED = ["render_total", "render_no_control", "dns_reencode", "dns_roundtrip_equal", "dns_roundtrip.boundary_values", "malformed_content_type"]
RULE = (
    "first a fixed boundary-value matrix for the DNS round trip (id 0/1/0x7fff/0x8000/0xffff under every wrapper, each flag 0/1, reserved bits, opcode 0..15, rcode 0..15, zero counts, empty/root question, TTL 0/1/2^31-1/2^31/2^32-1, type/class 0/255/65535, empty RDATA); then case = (body generator among random/text/JSON/GraphQL/XML-HTML/CSS/JS/protobuf/gRPC/MQTT/multipart/urlencoded/PNG-GIF-JPEG-ICO/"
    "zip/msgpack/socket.io/HTTP3/WBXML/DNS, optional byte-level mutation, message wrapper http-req/http-resp/tcp/udp/ws/dns, "
    "content-type matching/other/none/malformed (valueless, empty or =-only parameters, unbalanced quotes, several slashes, non-ASCII, very long), content-encoding, requested view = auto | matching | any registered | unknown); "
    "distinct = distinct (generator kind, wrapper, requested-view class, view that rendered, outcome ok/error-text/raw-fallback, mutated) "
    "tuple, for DNS cases (wrapper, feature set of the message, outcome); every DNS message also carries 3-5 records drawn uniformly from all record types mitmproxy names, with well-formed short RDATA (per-type counters rrtype.*); non-trivial = non-empty body that reached a view's prettify"
)
ASSUMPTIONS = [
    "control character = Unicode general category Cc other than TAB/LF/CR (same definition as C49)",
    "a call counts as not returning when it is blocked without consuming CPU for 1.3 s, or still running after 10 s",
    "bodies are capped at ~3 kB and nesting depth <= 6 (the protobuf view is super-linear in nesting depth; resource exhaustion is not part of the property)",
    "for TCP and HTTP wrappers the DNS view expects the 2-byte length prefix, so DNS messages are supplied length-prefixed there and bare for UDP/DNSMessage wrappers",
    "a DNSMessage whose own .packed raises has no message body and is outside the domain (counted as dnsmessage_without_body)",
    "DNS names are compared case-insensitively; RDATA of RFC 1035/3597 well-known name-bearing types is compared after decompression",
]
LEVEL_TEXT = (
    "Randomised exploration of views x structured generators x wrappers x metadata. Totality and the character-class invariant are "
    "checked on every call; DNS fidelity is checked with an independent decoder on generated wire messages. Coverage is bounded by the "
    "generators (no exhaustive claim over byte strings)."
)
LEVEL_NOTE = "Trusted: unicodedata, the private DNS reference (vf/ref/c50_dns.py), stdlib gzip/zlib/zipfile used only to build inputs."

CTL = re.compile(r"[\x00-\x08\x0b\x0c\x0e-\x1f\x7f-\x9f]")
ALL_CTYPES = ["application/json", "text/html", "text/css", "application/javascript", "application/x-protobuf", "application/grpc", "multipart/form-data; boundary=x", "application/x-www-form-urlencoded", "image/png", "application/zip", "application/msgpack", "application/dns-message", "application/vnd.ms-sync.wbxml", "text/plain", "application/octet-stream", "image/svg+xml", "bogus", "a/b; charset=\x9b"]


# malformed Content-Type values: valueless / empty / '='-only parameters, unbalanced quotes, several slashes, non-ASCII, very long
MALFORMED_CTYPES = [
    "text/html; utf-8", "application/json; v2", "multipart/form-data; boundary", "text/plain;", "text/plain;;", "text/plain; ;charset=utf-8",
    "text/plain; =", "text/plain; =utf-8", "text/plain; charset=", "text/plain; charset", "text/plain;charset=\"utf-8", "text/plain; charset='utf-8",
    "text/html; a=b; c", "text//html", "text/html/extra; q", "/", "/json", "json/", "", " ", ";", ";;=", "text/plain; charset=utf-8; charset",
    "application/json; \u00e9", "t\u00e9xt/pl\u00e4in; n\u00f6", "text/plain; " + "x" * 3000, "a/b; " + "p;" * 500, "image/png; \x00", "text/css;\tq",
    "multipart/form-data; boundary; boundary=x", "application/x-www-form-urlencoded; charset", "application/grpc; proto", "application/dns-message; a",
]


def wrap(r, body, ct, kind):
    """-> (message, flow, wrapper name)"""
    if kind == "http3":
        wk = "tcp"
    elif kind == "socketio":
        wk = r.choice(["ws", "ws", "tcp"])
    elif kind == "mqtt":
        wk = r.choice(["tcp", "tcp", "resp"])
    else:
        wk = r.choice(["req", "resp", "resp", "resp", "tcp", "udp", "ws"])
    if wk in ("req", "resp"):
        f = tflow.tflow(resp=True)
        m = f.request if wk == "req" else f.response
        x = r.random()
        if x < 0.55:
            pass
        elif x < 0.73:
            # a malformed value, standalone or appended as parameters to the matching type
            mal = r.choice(MALFORMED_CTYPES)
            ct = mal if (ct is None or r.random() < 0.5) else ct.split(";")[0] + ";" + mal.partition(";")[2]
            f.metadata["vf_malformed_ct"] = True
        elif x < 0.92:
            ct = r.choice(ALL_CTYPES)
        else:
            ct = None
        if ct is None:
            m.headers.pop("content-type", None)
        else:
            m.headers["content-type"] = ct
        y = r.random()
        raw = body
        if y < 0.06:
            raw = gzip.compress(body)
            m.headers["content-encoding"] = "gzip"
        elif y < 0.1:
            raw = zlib.compress(body)
            m.headers["content-encoding"] = "deflate"
        elif y < 0.14:
            m.headers["content-encoding"] = r.choice(["gzip", "br", "zstd", "utf-8", "bogus", "identity", "latin-1"])
        m.raw_content = raw
        if wk == "req" and r.random() < 0.3:
            m.path = "/p?" + B.s(r, 0.4) + "=" + B.s(r, 0.4) + "&a=1"
        return m, f, wk
    if wk == "ws":
        f = tflow.twebsocketflow()
        if kind == "socketio" or r.random() < 0.1:
            f.request.path = "/socket.io/?EIO=4&transport=websocket"
        is_text = r.random() < 0.5
        m = websocket.WebSocketMessage(Opcode.TEXT if is_text else Opcode.BINARY, r.random() < 0.5, body)
        f.websocket.messages.append(m)
        return m, f, wk
    if wk == "tcp":
        f = tflow.ttcpflow()
        m = tcp.TCPMessage(r.random() < 0.5, body)
        if kind == "http3" or r.random() < 0.1:
            f.client_conn.alpn = b"h3"
            if r.random() < 0.8:
                f.metadata["quic_is_unidirectional"] = r.random() < 0.5
            f.messages = [m] if r.random() < 0.7 else f.messages + [m]
        else:
            f.messages.append(m)
        if kind == "mqtt" or r.random() < 0.1:
            f.server_conn.address = ("broker", r.choice([1883, 8883, 53]))
        return m, f, wk
    f = tflow.tudpflow()
    m = udp.UDPMessage(r.random() < 0.5, body)
    f.messages.append(m)
    if r.random() < 0.2:
        f.server_conn.address = ("ns", r.choice([53, 5353]))
    return m, f, wk


def scan(text):
    return sorted({m.group(0) for m in CTL.finditer(text)})


def classify_ctl(chars):
    """Only the 8-bit C1 controls got through the final escape_control_characters() of prettify_message."""
    if chars and all(0x80 <= ord(c) <= 0x9F for c in chars):
        return "c1-control-passes-escape_control_characters"
    return None


def classify_hang(h):
    """Where the call was blocked (observed stack, not a message): the vendored WBXML decoder waits on an empty queue.Queue
    when the body ends inside a token."""
    if h.kind == "blocked" and any("/contrib/wbxml/ASWBXMLByteQueue.py" in x for x in h.frames[:6]):
        return "wbxml-view-blocks-forever-on-truncated-input"
    return None


def render(ctx, m, f, view, what):
    """Run prettify_message under both render monitors. Returns the result or None."""
    ctx.count("render_total")
    try:
        with guard():
            res = contentviews.prettify_message(m, f, view)
    except Hang as h:
        # the call does not return: blocked without using CPU (or still busy after 10 s)
        where = next((x for x in h.frames if "/mitmproxy/" in x), h.frames[0] if h.frames else "?")
        ctx.seen("hang_sites", f"{h.kind}@{where.split('/mitmproxy/')[-1]}")
        ctx.violation(f"prettify-does-not-return:{h.kind}", {**what, "where": where}, mechanism=classify_hang(h))
        return None
    except BaseException as e:  # noqa: Rust panics are BaseException
        if isinstance(e, (KeyboardInterrupt, SystemExit, MemoryError)):
            raise
        site = exc_site(e)
        ctx.seen("raise_sites", f"{type(e).__name__}@{site}")
        ctx.violation(f"prettify-raises:{type(e).__name__}@{site}", {**what, "exc": short(repr(e), 300)}, mechanism=None)
        return None
    ctx.count("render_no_control")
    if not isinstance(res.text, str):
        ctx.violation("text-not-str", {**what, "type": type(res.text).__name__})
        return None
    bad = scan(res.text)
    if bad:
        ctx.violation(
            "control-char-in-text",
            {**what, "rendered_by": res.view_name, "chars": [f"U+{ord(c):04X}" for c in bad], "text": short(repr(res.text), 300)},
            mechanism=classify_ctl(bad),
        )
    return res


# ------------------------------------------------------------------------------------------------
# DNS re-encode
# ------------------------------------------------------------------------------------------------

def utf8_ok(b):
    try:
        b.decode("utf-8")
        return True
    except UnicodeDecodeError:
        return False


def idna_ok(lab: bytes):
    """stdlib view of whether a wire label is an IDNA-decodable ASCII label (predicate on the input only)."""
    try:
        lab.decode("idna")
        return True
    except Exception:
        return False


def yaml_escaped(c):
    """characters a YAML emitter must write as an escape sequence inside a double-quoted scalar"""
    o = ord(c)
    return o < 0x20 or 0x7F <= o <= 0x9F or c in '"\\\u2028\u2029\ufeff' or 0xD800 <= o <= 0xDFFF or o in (0xFFFE, 0xFFFF)


FOLD = "dns-view-yaml-fold-after-escape-inserts-space"


def fold_explains(a: bytes, b: bytes):
    """ruamel folds a long double-quoted scalar right after an escape sequence; loading turns that fold into a space.
    Predicate: the original text is long, has a must-escape character beyond the first ~50 characters, and the re-encoded
    text equals the original up to inserted spaces."""
    try:
        t = a.decode("utf-8")
    except UnicodeDecodeError:
        return False
    return len(t) > 60 and any(yaml_escaped(c) for c in t[50:-1]) and a != b and b.replace(b" ", b"") == a.replace(b" ", b"")


def name_problem(n, bn=None):
    if any(b"." in lab for lab in n):
        return "dns-label-contains-dot"
    if bn is not None and fold_explains(b".".join(n), b".".join(bn)):
        return FOLD
    return None


def rdata_names(rd):
    if rd[0] == "names":
        return list(rd[1])
    if rd[0] in ("u16name", "srv"):
        return [rd[2]]
    if rd[0] == "soa":
        return [rd[1], rd[2]]
    return []


# types whose RDATA mitmproxy scans for compression pointers (domain_names.record_data_can_have_compression)
MITM_DECOMPRESS = {5, 13, 7, 3, 4, 8, 14, 9, 15, 2, 12, 6, 16, 17, 18, 21, 24, 26, 30, 35, 33}


def non_name_bytes(rd):
    """the RDATA bytes that are NOT part of an embedded domain name (integers, text, opaque data)"""
    if rd[0] == "opaque":
        return rd[1]
    if rd[0] in ("u16name", "srv"):
        return rd[1]
    if rd[0] == "soa":
        return rd[3]
    return b""


def classify_rr(a, b):
    """a = original record, b = re-encoded record (reference-decoded); predicates on the ORIGINAL only."""
    n, t, k, ttl, rd = a
    bn, bt, bk, bttl, brd = b
    if (t, k, ttl) != (bt, bk, bttl):
        return None
    if n != bn:
        return name_problem(n, bn)
    # only RDATA differs
    bnames = rdata_names(brd)
    for i, x in enumerate(rdata_names(rd)):
        p = name_problem(x, bnames[i] if i < len(bnames) else None)
        if p:
            return p
    raw = rd[1] if rd[0] == "opaque" else None
    if t == 16 and raw is not None:
        if not utf8_ok(raw):
            return "dns-view-txt-not-utf8"  # hex fallback text is stored back verbatim as the TXT data
        if fold_explains(raw, brd[1] if brd[0] == "opaque" else b""):
            return FOLD
    if t in (2, 5, 12):
        if raw is not None or any(not idna_ok(lab) for x in rdata_names(rd) for lab in x):
            return "dns-view-malformed-name-rdata"  # "0x.. (invalid .. data)" is packed back as if it were a domain name
        return None
    if t == 65 and raw is not None:
        info = D.https_info(raw)
        if info is None:
            return None
        tgt, keys = info
        binfo = D.https_info(brd[1]) if brd[0] == "opaque" else None
        p = name_problem(tgt, binfo[0] if binfo else None)
        if p:
            return p
        return None
    if t in MITM_DECOMPRESS and any(c >= 0xC0 for c in non_name_bytes(rd)):
        # integer / text / opaque RDATA bytes with the two top bits set are taken for compression pointers by unpack
        return "dns-unpack-rewrites-pointer-like-rdata-bytes"
    return None


def classify_dns(where, a, b):
    """Mechanism for one difference (where, original value, re-encoded value)."""
    if where == "z":
        return "dns-view-drops-reserved-bits" if a != 0 and b == 0 else None
    if where in D.HEADER_FIELDS or where.endswith(".count"):
        return None
    if where.startswith("questions"):
        return name_problem(a[0], b[0]) if a[1:] == b[1:] else None
    return classify_rr(a, b)


def classify_raise(e, ref, notes):
    """reencode_message raised: explain from the original message."""
    allnames = [q[0] for q in ref["questions"]] + [x[0] for s_ in ("answers", "authorities", "additionals") for x in ref[s_]]
    rrs = [x for s_ in ("answers", "authorities", "additionals") for x in ref[s_]]
    rdn = [y for x in rrs for y in rdata_names(x[4])]
    for x in rrs:
        if x[1] == 65 and x[4][0] == "opaque":
            info = D.https_info(x[4][1])
            if info:
                rdn.append(info[0])
    if isinstance(e, (ValueError, AttributeError)) and any(name_problem(x) for x in allnames + rdn):
        return "dns-label-contains-dot"
    if isinstance(e, ValueError) and "pointer-to-root" in notes:
        return "dns-compression-pointer-to-root-name"
    return None


# the record types mitmproxy names (the *input domain* of the per-type rendering / parsing code); values are numbers only
from mitmproxy.net.dns import types as _mtypes  # noqa: E402

KNOWN_TYPES = sorted(_mtypes._STRINGS)
TYPE_NAMES = dict(_mtypes._STRINGS)


def dns_case(ctx, r, preset=None):
    """preset = (label, wire, wrapper) for the fixed boundary-value matrix, else a random message."""
    if preset is None:
        wire, feats = G.message(r, KNOWN_TYPES)
    else:
        wire, feats = preset[1], {"boundary:" + preset[0].split("=")[0]}
    try:
        ref = D.decode(wire)
        notes = set(D.NOTES)
    except D.DecodeError:
        ctx.count("generator_rejected")
        ctx.case(("dns", "ref-reject"), nontrivial=False)
        return
    wk = preset[2] if preset is not None else r.choice(["udp", "udp", "tcp", "http", "dnsmsg"])
    framed = wk in ("tcp", "http")
    data = (len(wire).to_bytes(2, "big") + wire) if framed else wire
    if wk == "dnsmsg":
        try:
            m = mdns.DNSMessage.unpack(wire)
            m.packed
        except Exception:
            ctx.count("dnsmessage_without_body")
            wk = "udp"
    if wk == "udp":
        f = tflow.tudpflow()
        m = udp.UDPMessage(True, data)
        f.messages.append(m)
        f.server_conn.address = ("ns", 53)
    elif wk == "tcp":
        f = tflow.ttcpflow()
        m = tcp.TCPMessage(True, data)
        f.messages.append(m)
        f.server_conn.address = ("ns", 53)
    elif wk == "http":
        f = tflow.tflow(resp=True)
        m = f.response if r.random() < 0.5 else f.request
        m.headers["content-type"] = "application/dns-message"
        m.raw_content = data
    else:
        f = tflow.tdnsflow(req=m)
    view = r.choice(["dns", "dns", "DNS", "auto"])
    what = {"wrapper": wk, "view": view, "wire": wire, "features": sorted(feats)}
    if preset is not None:
        what["boundary"] = preset[0]
    res = render(ctx, m, f, view, what)
    outcome = "none"
    if res is not None:
        if res.view_name != "DNS" or res.syntax_highlight == "error":
            outcome = "view-rejected"
            ctx.count("dns_view_rejected")
        else:
            outcome = "ok"
            ctx.count("dns_reencode")
            if preset is not None:
                ctx.count("dns_roundtrip.boundary_values")
            try:
                out = contentviews.reencode_message(res.text, m, f, "dns")
                if framed:
                    if len(out) < 2 or int.from_bytes(out[:2], "big") != len(out) - 2:
                        ctx.violation("reencode-bad-length-prefix", {**what, "out": out})
                    out = out[2:]
                dec = D.decode(out)
            except Exception as e:
                outcome = "reencode-raises"
                mech = classify_raise(e, ref, notes)
                ctx.violation(f"reencode-raises:{type(e).__name__}@{exc_site(e)}", {**what, "text": short(res.text, 600), "exc": short(repr(e), 300)}, mechanism=mech)
            else:
                # reference view of what the DNS view itself was given (for the dnsmsg wrapper: mitmproxy's own re-pack)
                diffs = D.diff(ref, dec)
                for s_ in ("answers", "authorities", "additionals"):
                    for x in ref[s_]:
                        if x[1] in TYPE_NAMES:
                            ctx.count("rrtype." + TYPE_NAMES[x[1]])  # records of this type that went through the round trip
                if not diffs:
                    ctx.count("dns_roundtrip_equal")
                seen = set()
                for where, a, b in diffs:
                    mech = classify_dns(where, a, b)
                    key = mech or where.split("[")[0]
                    if key in seen:
                        continue
                    seen.add(key)
                    outcome = "differs"
                    ctx.violation("dns-reencode-differs", {**what, "where": where, "original": a, "reencoded": b}, mechanism=mech)
    types = tuple(sorted({x[1] if x[1] in (1, 2, 5, 6, 12, 15, 16, 28, 33, 41, 65) else 0 for s_ in ("answers", "authorities", "additionals") for x in ref[s_]}))[:3]
    ctx.case(("dns", wk, "odd-label" in feats or "rdata-odd-label" in feats, "compressed" in feats, ref["z"] != 0, types, outcome), nontrivial=True, sample={"wrapper": wk, "wire": wire, "text": short(res.text, 300) if res else None})


def run(ctx):
    logging.disable(logging.CRITICAL)
    views = contentviews.registry.available_views()
    with taddons.context():
        # fixed matrix first: boundary values of every DNS header / record field through the round-trip leg (split over the workers)
        bm = G.boundary_matrix()
        if ctx.only_case is not None and ctx.only_case < 0:
            ctx.case_index = ctx.only_case
            dns_case(ctx, ctx.case_rng(-ctx.only_case - 1, "boundary"), bm[-ctx.only_case - 1])
            return
        if ctx.only_case is None:
            for k, item in enumerate(bm):
                if k % ctx.nworkers == ctx.worker:
                    ctx.case_index = -(k + 1)
                    dns_case(ctx, ctx.case_rng(k, "boundary"), item)
        for i in ctx.cases():
            r = ctx.rng
            if r.random() < 0.4:
                dns_case(ctx, r)
                continue
            body, ct, match, kind = r.choice(B.GENERATORS)(r)
            mutated = r.random() < 0.25
            if mutated:
                body = B.mutate(r, body)
            body = body[:3000]
            m, f, wk = wrap(r, body, ct, kind)
            x = r.random()
            if x < 0.35:
                view, vclass = "auto", "auto"
            elif x < 0.65:
                view, vclass = match, "matching"
            elif x < 0.97:
                view = r.choice(views)
                vclass = "other"
            else:
                view, vclass = r.choice(["nonexistent", "", "AUTO", "Raw"]), "unknown-name"
            what = {"kind": kind, "wrapper": wk, "view": view, "content_type": m.headers.get("content-type") if hasattr(m, "headers") else None, "body": body[:400], "mutated": mutated}
            malct = bool(f.metadata.get("vf_malformed_ct"))
            if malct:
                ctx.count("malformed_content_type")
            res = render(ctx, m, f, view, what)
            if res is None:
                outcome, by = "violation", None
            else:
                by = res.view_name
                if res.syntax_highlight == "error":
                    outcome = "error-text"
                elif "failed to parse" in res.description:
                    outcome = "raw-fallback"
                else:
                    outcome = "ok"
                ctx.seen("rendered_by", f"{by}:{outcome}")
            ctx.case((kind, wk, vclass, by, outcome, mutated, malct), nontrivial=len(body) > 0, sample={**what, "text": short(res.text, 200) if res else None})
