"""C13 -- ClientHello parsing is total, faithful and independent of record/segment splitting.

Three monitors, all at the real boundaries named by the property:

* faithful (M2, ground truth by construction): a hello built by vf.ref.tlshello (SNI / ALPN / cipher suites /
  extension (type, body) list known by construction) is wrapped into 1..n handshake records and given to the real
  parse_client_hello / dtls_parse_client_hello; the reported values must equal the construction, every proper prefix
  of the record bytes must be reported as incomplete (None), and the reference parser run on mitmproxy's raw_bytes()
  must read the same hello again.
* split-invariant: the same hello is re-fragmented into records and cut into TCP segments and fed to a real
  ClientTLSLayer (sans-io, own driver loop); the ClientHelloData at the tls_clienthello hook must be the same
  (and equal to the construction), the hook must fire exactly once and not before the last needed byte.
* total: mutated hellos and random bytes go through the parse functions, all ClientHello accessors and the layer;
  only None / ClientHello / ValueError are allowed outcomes, nothing may escape the layer. Where the strict reference
  parser accepts a mutated input, mitmproxy must agree with it (tolerance 3.7: garbage accepted by mitmproxy and
  rejected by the reference is only recorded).
"""
from __future__ import annotations

import struct

from mitmproxy import connection
from mitmproxy import options
from mitmproxy.addons.proxyserver import Proxyserver
from mitmproxy.proxy import commands
from mitmproxy.proxy import context
from mitmproxy.proxy import events
from mitmproxy.proxy import layer
from mitmproxy.proxy.layers import tls
from mitmproxy.tls import ClientHello

from vf.ref import tlshello as T

PROPERTY = "C13"
LEVEL = "exploration"
ENGINE = "sansio"
TECHNIQUE = "differential vs construction-time ground truth + reference parser; metamorphic re-fragmentation"
BUDGET = {"quick": (3000, 18), "thorough": (400_000, 200)}
WORKERS = {"quick": 2, "thorough": 16}
REQUIRED = ["faithful", "prefix_incomplete", "layer_split_invariant", "raw_bytes_reparsed", "total", "dtls_faithful"]
RULE = (
    "case = one generated first flight: a reference-built TLS (or, smaller share, DTLS) ClientHello with random "
    "legacy version, session id, 0-40 cipher suites incl. GREASE, shuffled extensions incl. unknown/empty ones, an "
    "SNI class (absent, plain, upper-case, 63-byte label, 253-byte name, A-label, IPv4, underscore, two names, "
    "non-hostname type, invalid bytes, trailing dot, IPv6, 255 bytes, empty name, empty name list) and an ALPN class; wrapped into records "
    "by a fragmentation pattern (single, cut inside the 4-byte handshake header, random cuts, 1-byte records) and cut "
    "into TCP segments (whole, random, inside the record header, record aligned, byte-wise); or a mutation of such a "
    "hello (length field +-1, structural truncation, type byte, empty record, interleaved alert, byte flips, bad "
    "record type/version, trailing garbage), a hello with a degenerate server_name / ALPN body (empty list, zero-length names, list "
    "length not matching, truncated entry) or random bytes. distinct = (kind, SNI class, ALPN class, size classes, "
    "fragmentation pattern, segmentation pattern, verdict); non-trivial = a complete hello was parsed and compared, "
    "or a rejection/exception site was reached"
)
ASSUMPTIONS = [
    "valid domain for records: handshake records (type 22) of version 3.0-3.3 (TLS) / 254.253 or 254.255 (DTLS 1.2 / 1.0), 1..2^14 bytes each",
    "SNI must be reported exactly for a single host_name entry that is a plain LDH(+underscore) name <= 253 bytes or a well-formed A-label name; for every other server_name content (two names, extra name types, invalid bytes, trailing dot, IPv6 literal, 255 bytes, fake A-label) either None or the first host_name is accepted",
    "DTLS hellos are unfragmented (one record = one datagram); RFC 6347 handshake fragmentation is outside the statement",
    "the tls_start_client hook leaves ssl_conn unset, so OpenSSL never sees the generated hellos (C14 covers the handshake)",
]
LEVEL_TEXT = (
    "Exploration: generated hellos, fragmentations and mutations are sampled, not enumerated. The ground truth is known "
    "by construction and cross-checked by an independent strict parser, so every compared case is decided exactly; "
    "assurance is that no counterexample exists among the sampled feature combinations."
)
LEVEL_NOTE = "trusted: vf/ref/tlshello.py (builder + strict parser, cross-checked against OpenSSL-generated hellos), the own layer driver loop"

# ---------------------------------------------------------------------------------------------
# generator
# ---------------------------------------------------------------------------------------------

ALABELS = [b"xn--mnchen-3ya", b"xn--bcher-kva", b"xn--fsq", b"xn--80ak6aa92e", b"xn--nxasmq6b", b"xn--caf-dma"]
LABEL_CH = b"abcdefghijklmnopqrstuvwxyz0123456789"
CIPHER_POOL = [0x1301, 0x1302, 0x1303, 0xC02B, 0xC02F, 0xC02C, 0xC030, 0xCCA9, 0xCCA8, 0xC013, 0xC014, 0x009C, 0x009D, 0x002F, 0x0035, 0x000A, 0x00FF, 0x5600, 0x0000, 0xFFFF]
EXT_POOL = [5, 10, 11, 13, 18, 21, 23, 27, 28, 34, 35, 41, 43, 45, 49, 50, 51, 17513, 65037, 65281]


def rlabel(r, n=None):
    n = n or r.choice([1, 2, 3, 5, 8, 12])
    return bytes(r.choice(LABEL_CH) for _ in range(n))


def rhost(r):
    return b".".join(rlabel(r) for _ in range(r.choice([1, 2, 2, 3, 4]))) + r.choice([b".com", b".example", b".co.uk", b""])


def gen_sni(r):
    """-> (class, names or None, strict_expected: bool). names = list of (type, bytes)."""
    k = r.choice(
        ["none", "host", "host", "host", "upper", "label63", "name253", "alabel", "ipv4", "underscore", "digits", "hyphen",
         "two", "host+other", "other+host", "othertype", "badbytes", "trailingdot", "ipv6", "name255", "empty", "fakealabel", "edgehyphen", "label64", "emptylabel", "emptylist", "emptylist"]
    )
    if k == "none":
        return k, None, True
    h = rhost(r)
    if k == "host":
        n = h
    elif k == "upper":
        n = bytes(c - 32 if 97 <= c <= 122 and r.random() < 0.6 else c for c in h)
    elif k == "label63":
        n = rlabel(r, 63) + b"." + h
    elif k == "name253":
        n = b".".join([rlabel(r, 63)] * 3 + [rlabel(r, 61)])
        assert len(n) == 253
    elif k == "alabel":
        n = r.choice(ALABELS) + b"." + r.choice([b"de", b"example", r.choice(ALABELS)])
    elif k == "ipv4":
        n = b"%d.%d.%d.%d" % tuple(r.randrange(256) for _ in range(4))
    elif k == "underscore":
        n = b"_" + rlabel(r) + b"." + h
    elif k == "digits":
        n = b"%d." % r.randrange(10000) + h
    elif k == "hyphen":
        n = rlabel(r) + b"-" + rlabel(r) + b"--" + rlabel(r) + b"." + h
    else:
        n = None
    if n is not None:
        assert sni_is_plain(n), n  # harness self-check: strict classes are plain names for the reference syntax
        return k, [(0, n)], True
    # ---- edge classes: either None or the first host_name is acceptable
    if k == "two":
        return k, [(0, h), (0, rhost(r))], False
    if k == "host+other":
        return k, [(0, h), (r.choice([1, 2, 255]), rlabel(r))], False
    if k == "other+host":
        return k, [(r.choice([1, 2, 255]), rlabel(r)), (0, h)], False
    if k == "emptylist":
        return k, [], True  # server_name extension whose ServerNameList has no entry (body 00 00) -> no name, must be None
    if k == "othertype":
        return k, [(r.choice([1, 2, 255]), h)], True  # no host_name at all -> must be None
    if k == "badbytes":
        bad = r.choice([b"\x00", b" ", b"\xff", b"\xc3\xbc", b"/", b"\n", b"*", b"@", b"%00"])
        i = r.randrange(len(h) + 1)
        return k, [(0, h[:i] + bad + h[i:])], False
    if k == "trailingdot":
        return k, [(0, h + b".")], False
    if k == "ipv6":
        return k, [(0, r.choice([b"::1", b"2001:db8::1", b"[2001:db8::1]", b"fe80::1%eth0"]))], False
    if k == "name255":
        return k, [(0, b".".join([rlabel(r, 63)] * 3 + [rlabel(r, 63)]))], False
    if k == "empty":
        return k, [(0, b"")], False
    if k == "fakealabel":
        return k, [(0, r.choice([b"xn--", b"xn--a", b"xn--zz--zz", b"XN--99999999", b"xn--\x80"]) + b"." + h)], False
    if k == "edgehyphen":
        return k, [(0, r.choice([b"-" + h, h + b"-", b"a.-b." + h]))], False
    if k == "label64":
        return k, [(0, rlabel(r, 64) + b"." + h)], False
    if k == "emptylabel":
        return k, [(0, b"a.." + h)], False
    raise AssertionError(k)


def gen_alpn(r):
    k = r.choice(["none", "none", "h2h1", "h1", "unknown", "long255", "emptylist", "many", "emptyname", "binary"])
    if k == "none":
        return k, None
    if k == "h2h1":
        return k, [b"h2", b"http/1.1"]
    if k == "h1":
        return k, [b"http/1.1"]
    if k == "unknown":
        return k, [rlabel(r) for _ in range(r.randint(1, 3))]
    if k == "long255":
        return k, [b"h2", rlabel(r, 255)]
    if k == "emptylist":
        return k, []
    if k == "many":
        return k, [rlabel(r) for _ in range(r.randint(8, 40))]
    if k == "emptyname":
        return k, [b"", b"h2"]
    return k, [bytes(r.getrandbits(8) for _ in range(r.randint(1, 9))) for _ in range(r.randint(1, 3))]


def gen_hello(r, dtls=False):
    """-> (handshake bytes, truth dict, feature dict)"""
    sni_k, names, sni_strict = gen_sni(r)
    alpn_k, alpn = gen_alpn(r)
    ncs = r.choice([0, 1, 2, 5, 17, 40])
    ciphers = [r.choice(CIPHER_POOL + T.GREASE) if r.random() < 0.9 else r.getrandbits(16) for _ in range(ncs)]
    nx = r.choice([0, 0, 1, 3, 8, 20])
    extras = []
    for _ in range(nx):
        t = r.choice(EXT_POOL + T.GREASE) if r.random() < 0.85 else r.choice([x for x in (r.getrandbits(16),) if x not in (0, 16)] or [7])
        ln = r.choice([0, 0, 1, 2, 7, 32, 200])
        extras.append((t, bytes(r.getrandbits(8) for _ in range(ln))))
    if r.random() < 0.9:  # usually no repeated extension type (RFC 8446 4.2); a small share keeps repeats of unknown types
        seen_t = set()
        extras = [e for e in extras if not (e[0] in seen_t or seen_t.add(e[0]))]
    big = r.random() < 0.04
    if big:
        extras.append((21, b"\x00" * r.choice([3000, 16400, 20000])))
    exts = []
    if names is not None:
        exts.append((0, T.sni_ext_body(names)))
    if alpn is not None:
        exts.append((16, T.alpn_ext_body(alpn)))
    exts.extend(extras)
    r.shuffle(exts)
    no_block = not exts and r.random() < 0.5
    if dtls:
        lv = r.choice([0xFEFD, 0xFEFD, 0xFEFF])
    else:
        lv = r.choice([0x0301, 0x0302, 0x0303, 0x0303, 0x0303, 0x0300, 0x0304])
    sid = bytes(r.getrandbits(8) for _ in range(r.choice([0, 0, 1, 16, 32])))
    comp = r.choice([b"\x00", b"\x00", b"\x01\x00", b""])
    cookie = bytes(r.getrandbits(8) for _ in range(r.choice([0, 0, 20, 32, 255]))) if dtls else b""
    rnd = bytes(r.getrandbits(8) for _ in range(32))
    hs = T.build_client_hello(
        ciphers=ciphers, extensions=exts, legacy_version=lv, random=rnd, session_id=sid, compression=comp,
        no_extensions_block=no_block, dtls=dtls, cookie=cookie, message_seq=r.choice([0, 0, 1]) if dtls else 0,
    )
    first_host = next((n for t, n in names if t == 0), None) if names else None
    truth = {
        "ciphers": ciphers,
        "extensions": exts,
        "alpn": alpn or [],
        "sni_strict": sni_strict,
        "sni_first": first_host,
        "sni_names": names,
    }
    feats = {
        "sni": sni_k,
        "alpn": alpn_k,
        "ncs": ncs,
        "nx": min(len(exts), 9),
        "lv": lv,
        "noblock": no_block,
        "big": big,
    }
    return hs, truth, feats


def gen_cuts(r, L):
    """Fragmentation of L handshake bytes into records -> (pattern name, cut offsets). Records stay <= 2^14."""
    pats = ["single", "single", "hdr", "hdr-each", "two", "many", "tiny-head"]
    if L <= 400:
        pats.append("bytewise")
    k = r.choice(pats)
    if k == "single":
        cuts = []
    elif k == "hdr":
        cuts = [r.choice([1, 2, 3])]
    elif k == "hdr-each":
        cuts = [1, 2, 3, 4]
    elif k == "two":
        cuts = [r.randrange(1, L)]
    elif k == "many":
        cuts = [r.randrange(1, L) for _ in range(r.randint(2, 8))]
    elif k == "tiny-head":
        cuts = list(range(1, min(L, r.choice([5, 7, 40]))))
    else:
        cuts = list(range(1, L))
    cuts = sorted(set(cuts))
    # enforce the 2^14 record limit
    bounds = [0, *cuts, L]
    extra = []
    for a, b in zip(bounds, bounds[1:]):
        while b - a > T.MAX_RECORD:
            a += T.MAX_RECORD
            extra.append(a)
    if extra:
        k += "+16k"
    return k, sorted(set(cuts + extra))


def gen_segments(r, data: bytes, rec_bounds):
    """Cut the wire bytes into TCP segments -> (pattern, list of segments)."""
    N = len(data)
    pats = ["whole", "two", "many", "rechdr", "aligned", "aligned+1"]
    if N <= 500:
        pats.append("bytewise")
    k = r.choice(pats)
    if k == "whole" or N < 2:
        cuts = []
    elif k == "two":
        cuts = [r.randrange(1, N)]
    elif k == "many":
        cuts = [r.randrange(1, N) for _ in range(r.randint(2, 10))]
    elif k == "rechdr":
        b = r.choice(rec_bounds)
        cuts = [b + r.choice([1, 2, 3, 4]), b + 5, b + 6 + r.choice([0, 1, 2, 3])]
    elif k == "aligned":
        cuts = list(rec_bounds[:60])
    elif k == "aligned+1":
        cuts = [b + r.choice([-1, 1]) for b in rec_bounds[:60]]
    else:
        cuts = list(range(1, N))
    cuts = sorted({c for c in cuts if 0 < c < N})
    bounds = [0, *cuts, N]
    return k, [data[a:b] for a, b in zip(bounds, bounds[1:])]


def record_bounds(hs_len, cuts):
    """Wire offsets at which each record starts."""
    out = []
    off = 0
    bounds = [0, *cuts, hs_len]
    for a, b in zip(bounds, bounds[1:]):
        out.append(off)
        off += 5 + (b - a)
    return out


# ---------------------------------------------------------------------------------------------
# own sans-io driver for a real ClientTLSLayer
# ---------------------------------------------------------------------------------------------

class Sink(layer.Layer):
    def _handle_event(self, event):
        yield from ()


_OPTS = None


def _opts():
    global _OPTS
    if _OPTS is None:
        _OPTS = options.Options()
        Proxyserver().load(_OPTS)
    return _OPTS


def drive_layer(segments, dtls=False):
    """Feed segments to ServerTLSLayer(closed server) / ClientTLSLayer / Sink.

    Returns dict(hooks=[(segment index, ClientHelloData)], verdict, failed_hooks, logs, client)."""
    client = connection.Client(
        peername=("198.51.100.7", 51234),
        sockname=("127.0.0.1", 8080),
        timestamp_start=1.0,
        state=connection.ConnectionState.OPEN,
        transport_protocol="udp" if dtls else "tcp",
    )
    ctx = context.Context(client, _opts())
    top = tls.ServerTLSLayer(ctx)
    cl = tls.ClientTLSLayer(ctx)
    top.child_layer = cl
    cl.child_layer = Sink(ctx)
    res = {"hooks": [], "failed": 0, "start_client": 0, "logs": [], "closed_at": None, "client": client, "steps": 0}

    def pump(ev, idx):
        pending = [ev]
        while pending:
            e = pending.pop(0)
            for cmd in top.handle_event(e):
                res["steps"] += 1
                if res["steps"] > 100_000:
                    raise RuntimeError("layer driver step budget exceeded")
                if isinstance(cmd, tls.TlsClienthelloHook):
                    res["hooks"].append((idx, cmd.data))
                    pending.append(events.HookCompleted(cmd))
                elif isinstance(cmd, tls.TlsStartClientHook):
                    res["start_client"] += 1  # ssl_conn stays None: the layer closes the connection
                    pending.append(events.HookCompleted(cmd))
                elif isinstance(cmd, tls.TlsFailedClientHook):
                    res["failed"] += 1
                    pending.append(events.HookCompleted(cmd))
                elif isinstance(cmd, commands.StartHook):
                    pending.append(events.HookCompleted(cmd))
                elif isinstance(cmd, commands.OpenConnection):
                    pending.append(events.OpenConnectionCompleted(cmd, "no upstream in this harness"))
                elif isinstance(cmd, commands.CloseConnection):
                    if cmd.connection is client:
                        client.state = connection.ConnectionState.CLOSED
                        if res["closed_at"] is None:
                            res["closed_at"] = idx
                elif isinstance(cmd, commands.Log):
                    res["logs"].append(cmd.message[:80])

    pump(events.Start(), -1)
    for i, seg in enumerate(segments):
        if res["closed_at"] is not None:
            break
        pump(events.DataReceived(client, seg), i)
    if res["hooks"]:
        res["verdict"] = "accept"
    elif res["closed_at"] is not None:
        res["verdict"] = "reject"
    else:
        res["verdict"] = "incomplete"
    return res


# ---------------------------------------------------------------------------------------------
# oracles
# ---------------------------------------------------------------------------------------------

def observed(ch: ClientHello, dtls=False):
    """Read every public accessor of the real ClientHello (any exception here is a totality failure)."""
    o = {
        "sni": ch.sni,
        "alpn": list(ch.alpn_protocols),
        "ciphers": list(ch.cipher_suites),
        "extensions": [(t, bytes(b)) for t, b in ch.extensions],
        "raw": ch.raw_bytes(wrap_in_record=False) if not dtls else bytes(ch._raw_bytes),
    }
    repr(ch)
    return o


def compare(obs, truth):
    """-> list of (field, expected, got) differences against the construction."""
    diffs = []
    if obs["ciphers"] != truth["ciphers"]:
        diffs.append(("cipher_suites", truth["ciphers"][:50], obs["ciphers"][:50]))
    if obs["extensions"] != truth["extensions"]:
        diffs.append(("extensions", [(t, T_short(b)) for t, b in truth["extensions"][:30]], [(t, T_short(b)) for t, b in obs["extensions"][:30]]))
    if obs["alpn"] != truth["alpn"]:
        diffs.append(("alpn_protocols", truth["alpn"][:30], obs["alpn"][:30]))
    first = truth["sni_first"]
    try:
        first_s = first.decode("ascii") if first is not None else None
    except UnicodeDecodeError:
        first_s = None
    if truth["sni_strict"]:
        if obs["sni"] != first_s:
            diffs.append(("sni", first_s, obs["sni"]))
    elif obs["sni"] is not None and obs["sni"] != first_s:
        diffs.append(("sni", [None, first_s], obs["sni"]))
    return diffs


def T_short(b, n=24):
    return b if len(b) <= n else b[:n] + b"...%d" % len(b)


def classify(kind, *, dtls=False, rec_version=None, feats=None, field=None):
    """Mechanism = condition on the generated input, never on seeds or messages."""
    if dtls and rec_version == 0xFEFF and kind in ("rejects-valid-hello", "layer-verdict-differs", "valid-hello-not-parsed"):
        return "dtls-record-version-feff"
    return None


def parse_real(ctx, data, dtls, where, witness):
    """Call the real parse function with the totality whitelist. -> ('none'|'hello'|'valueerror'|'other', value)"""
    fn = tls.dtls_parse_client_hello if dtls else tls.parse_client_hello
    ctx.count("total")
    try:
        ch = fn(data)
    except ValueError as e:
        ctx.seen("reject_sites", f"{type(e).__name__}:{str(e)[:18]}")
        return "valueerror", e
    except Exception as e:  # noqa -- anything else refutes totality
        from vf.core import exc_site
        ctx.violation(f"parse-raises:{type(e).__name__}@{exc_site(e)}", {**witness, "where": where, "exc": repr(e)[:300]})
        return "other", e
    if ch is None:
        return "none", None
    if not isinstance(ch, ClientHello):
        ctx.violation("parse-returns-other-type", {**witness, "where": where, "type": type(ch).__name__})
        return "other", None
    return "hello", ch


def read_accessors(ctx, ch, dtls, witness):
    ctx.count("accessors_total")
    try:
        return observed(ch, dtls)
    except Exception as e:  # noqa
        from vf.core import exc_site
        ctx.violation(f"accessor-raises:{type(e).__name__}@{exc_site(e)}", {**witness, "exc": repr(e)[:300]})
        return None


def check_valid_tls(ctx, r):
    hs, truth, feats = gen_hello(r)
    L = len(hs)
    base_w = {"handshake": hs if L < 1500 else hs[:1500], "hs_len": L, "feats": feats, "sni_names": truth["sni_names"]}
    verdicts = []
    frag_names = []
    ref = T.parse(hs)  # harness self-check: builder and reference parser agree
    assert ref["ciphers"] == truth["ciphers"] and (ref["extensions"] or []) == truth["extensions"], "ref self-check"
    wire_for_layer = None
    for j in range(3):
        fk, cuts = gen_cuts(r, L)
        if j == 0 and L <= T.MAX_RECORD:
            fk, cuts = "single", []
        rv = r.choice([[0x0301], [0x0303], [0x0300], [0x0302], [0x0301, 0x0303]])
        wire = T.wrap_records(hs, cuts, versions=rv)
        trail = b""
        if r.random() < 0.15:
            trail = r.choice([b"\x17\x03\x03\x00\x05hello", b"\x14\x03\x03\x00\x01\x01", b"\x16\x03\x03\x00", b"\x00"])
        w = {**base_w, "cuts": cuts[:40], "frag": fk, "record_versions": rv, "trail": trail}
        kind, ch = parse_real(ctx, wire + trail, False, "parse_client_hello(valid)", w)
        frag_names.append(fk)
        ctx.count("faithful")
        if kind != "hello":
            if kind != "other":
                ctx.violation("rejects-valid-hello", {**w, "outcome": kind, "exc": repr(ch)[:200]}, classify("rejects-valid-hello", feats=feats))
            verdicts.append(kind)
            continue
        verdicts.append("hello")
        obs = read_accessors(ctx, ch, False, w)
        if obs is None:
            continue
        for d in compare(obs, truth):
            ctx.violation(f"reported-{d[0]}-differs", {**w, "field": d[0], "expected": d[1], "got": d[2]}, classify("differs", feats=feats, field=d[0]))
        if obs["raw"] != hs[4:]:
            ctx.violation("raw-bytes-differ", {**w, "got": obs["raw"][:200]})
        # reference parser on mitmproxy's synthetic record
        ctx.count("raw_bytes_reparsed")
        try:
            synthetic = ch.raw_bytes(wrap_in_record=True)
            if L <= T.MAX_RECORD:
                k2, hs2 = T.unwrap_records(synthetic)
            else:  # the synthetic record is larger than a legal record; read the handshake message directly
                k2, hs2 = "hello", synthetic[5:]
            p2 = T.parse(hs2) if k2 == "hello" else None
            if p2 is None or p2["ciphers"] != truth["ciphers"] or (p2["extensions"] or []) != truth["extensions"]:
                ctx.violation("raw-bytes-reparse-differs", {**w, "synthetic_head": synthetic[:16]})
        except T.ParseError as e:
            ctx.violation("raw-bytes-not-reparsable", {**w, "exc": repr(e)})
        except Exception as e:  # noqa
            ctx.violation(f"raw-bytes-raises:{type(e).__name__}", {**w, "exc": repr(e)})
        # prefixes are incomplete
        N = len(wire)
        offs = {0, 1, 2, 3, 4, 5, 6, 8, 9, 10, N - 1, N - 2}
        offs.update(b + d for b in record_bounds(L, cuts)[:8] for d in (-1, 0, 1, 4, 5, 6))
        offs.update(r.randrange(N) for _ in range(6))
        if ctx.tier == "thorough" and N <= 700 and r.random() < 0.2:
            offs.update(range(N))
        for o in sorted(x for x in offs if 0 <= x < N):
            ctx.count("prefix_incomplete")
            kind_p, v = parse_real(ctx, wire[:o], False, "parse_client_hello(prefix)", {**w, "prefix": o})
            if kind_p not in ("none", "other"):
                ctx.violation("prefix-not-incomplete", {**w, "prefix": o, "total": N, "outcome": kind_p, "exc": repr(v)[:200]})
        if wire_for_layer is None or r.random() < 0.5:
            wire_for_layer = (wire, trail, cuts, fk, w)
    # ---- layer leg: same hello, different fragmentations / segmentations -> same ClientHelloData
    seg_names = []
    if wire_for_layer is not None:
        wire, trail, cuts, fk, w = wire_for_layer
        bounds = record_bounds(L, cuts)
        for j in range(2):
            sk, segs = gen_segments(r, wire + trail, bounds) if j else ("whole", [wire + trail])
            seg_names.append(sk)
            ctx.count("layer_split_invariant")
            try:
                res = drive_layer(segs)
            except Exception as e:  # noqa
                from vf.core import exc_site
                ctx.violation(f"layer-raises:{type(e).__name__}@{exc_site(e)}", {**w, "seg": sk, "seg_lens": [len(s) for s in segs][:40], "exc": repr(e)[:300]})
                continue
            ww = {**w, "seg": sk, "seg_lens": [len(s) for s in segs][:40], "logs": res["logs"][:4]}
            if res["verdict"] != "accept":
                ctx.violation("layer-verdict-differs", {**ww, "verdict": res["verdict"], "expected": "accept"}, classify("layer-verdict-differs", feats=feats))
                continue
            if len(res["hooks"]) != 1:
                ctx.violation("clienthello-hook-count", {**ww, "count": len(res["hooks"])})
            idx, data = res["hooks"][0]
            got_bytes = sum(len(s) for s in segs[: idx + 1])
            if got_bytes < len(wire):
                ctx.violation("hook-before-hello-complete", {**ww, "bytes_seen": got_bytes, "needed": len(wire)})
            if got_bytes - len(segs[idx]) >= len(wire):
                ctx.violation("hook-later-than-needed", {**ww, "bytes_seen_before": got_bytes - len(segs[idx]), "needed": len(wire)})
            obs = read_accessors(ctx, data.client_hello, False, ww)
            if obs is None:
                continue
            for d in compare(obs, truth):
                ctx.violation(f"hook-{d[0]}-differs", {**ww, "field": d[0], "expected": d[1], "got": d[2]}, classify("differs", feats=feats, field=d[0]))
            if obs["raw"] != hs[4:]:
                ctx.violation("hook-raw-bytes-differ", {**ww})
            cli = res["client"]
            if cli.sni != obs["sni"] or list(cli.alpn_offers) != obs["alpn"]:
                ctx.violation("client-conn-attrs-differ", {**ww, "client_sni": cli.sni, "client_alpn_offers": list(cli.alpn_offers)[:20], "hello_sni": obs["sni"]})
            if data.context.client is not cli:
                ctx.violation("hook-context-differs", ww)
    sig = ("tls", feats["sni"], feats["alpn"], feats["lv"], feats["noblock"], feats["big"], tuple(sorted(set(frag_names))), tuple(sorted(set(seg_names))), tuple(sorted(set(verdicts))))
    sample = {"handshake": hs[:300], "feats": feats, "frag": frag_names, "seg": seg_names}
    return sig, "hello" in verdicts, sample


def check_valid_dtls(ctx, r):
    hs, truth, feats = gen_hello(r, dtls=True)
    rec_version = r.choice([0xFEFD, 0xFEFD, 0xFEFF])
    wire = T.wrap_records(hs, dtls=True, version=rec_version, epoch=0, seq0=r.choice([0, 0, 1, 7]))
    w = {"handshake": hs[:1500], "hs_len": len(hs), "feats": feats, "record_version": rec_version, "wire_head": wire[:32], "sni_names": truth["sni_names"]}
    ref = T.parse(hs, dtls=True)
    assert ref["ciphers"] == truth["ciphers"] and (ref["extensions"] or []) == truth["extensions"], "ref self-check"
    kind, ch = parse_real(ctx, wire, True, "dtls_parse_client_hello(valid)", w)
    ctx.count("dtls_faithful")
    verdict = kind
    if kind == "hello":
        obs = read_accessors(ctx, ch, True, w)
        if obs is not None:
            for d in compare(obs, truth):
                ctx.violation(f"reported-{d[0]}-differs", {**w, "field": d[0], "expected": d[1], "got": d[2]}, classify("differs", dtls=True, feats=feats, field=d[0]))
            if obs["raw"] != hs[12:]:
                ctx.violation("raw-bytes-differ", {**w, "got": obs["raw"][:200]})
    elif kind != "other":
        ctx.violation("rejects-valid-hello", {**w, "outcome": kind, "exc": repr(ch)[:200]}, classify("rejects-valid-hello", dtls=True, rec_version=rec_version, feats=feats))
    N = len(wire)
    for o in sorted({0, 1, 2, 3, 12, 13, 14, 24, 25, 26, N - 1, r.randrange(N), r.randrange(N)}):
        if 0 <= o < N:
            ctx.count("prefix_incomplete")
            kind_p, v = parse_real(ctx, wire[:o], True, "dtls_parse_client_hello(prefix)", {**w, "prefix": o})
            if kind_p == "hello" or (kind_p == "valueerror" and kind == "hello"):
                ctx.violation("prefix-not-incomplete", {**w, "prefix": o, "total": N, "outcome": kind_p, "exc": repr(v)[:200]})
    ctx.count("dtls_layer")
    try:
        res = drive_layer([wire], dtls=True)
    except Exception as e:  # noqa
        from vf.core import exc_site
        ctx.violation(f"layer-raises:{type(e).__name__}@{exc_site(e)}", {**w, "exc": repr(e)[:300]})
        res = None
    if res is not None:
        if res["verdict"] != "accept":
            ctx.violation("layer-verdict-differs", {**w, "verdict": res["verdict"], "expected": "accept", "logs": res["logs"][:3]}, classify("layer-verdict-differs", dtls=True, rec_version=rec_version, feats=feats))
        else:
            obs = read_accessors(ctx, res["hooks"][0][1].client_hello, True, w)
            if obs is not None:
                for d in compare(obs, truth):
                    ctx.violation(f"hook-{d[0]}-differs", {**w, "field": d[0], "expected": d[1], "got": d[2]}, classify("differs", dtls=True, feats=feats, field=d[0]))
    sig = ("dtls", feats["sni"], feats["alpn"], feats["lv"], rec_version, feats["noblock"], verdict)
    return sig, True, {"dtls_handshake": hs[:300], "feats": feats, "record_version": rec_version}


# ---- mutations ---------------------------------------------------------------------------------

def length_field_offsets(hs: bytes):
    """Offsets (pos, width) of the length fields of a well-formed TLS hello (walk of the structure)."""
    out = [(1, 3)]
    p = 4 + 2 + 32
    out.append((p, 1))
    p += 1 + hs[p]
    out.append((p, 2))
    p += 2 + struct.unpack("!H", hs[p : p + 2])[0]
    out.append((p, 1))
    p += 1 + hs[p]
    if p < len(hs):
        out.append((p, 2))
        p += 2
        n = 0
        while p + 4 <= len(hs) and n < 12:
            out.append((p + 2, 2))
            t, ln = struct.unpack("!HH", hs[p : p + 4])
            if t in (0, 16) and ln >= 2:
                out.append((p + 4, 2))
                if t == 0 and ln >= 5:
                    out.append((p + 7, 2))
                if t == 16 and ln >= 3:
                    out.append((p + 6, 1))
            p += 4 + ln
            n += 1
    return out


def mutate(r, hs: bytes):
    """-> (mutation name, wire bytes)"""
    L = len(hs)
    k = r.choice(["len+1", "len-1", "len-rand", "struct-trunc", "type", "empty-record", "alert", "flip", "insert", "delete", "rectype", "recversion", "garbage-tail", "reclen+1", "reclen-1", "ccs-first"])
    cuts = gen_cuts(r, L)[1] if r.random() < 0.5 else []
    if k in ("len+1", "len-1", "len-rand"):
        pos, wd = r.choice(length_field_offsets(hs))
        v = int.from_bytes(hs[pos : pos + wd], "big")
        nv = {"len+1": v + 1, "len-1": v - 1, "len-rand": r.getrandbits(8 * wd)}[k] % (1 << (8 * wd))
        hs2 = hs[:pos] + nv.to_bytes(wd, "big") + hs[pos + wd :]
        if pos == 1:
            return k + ":hs", T.wrap_records(hs2, cuts)
        # keep the outer handshake length consistent so the inner field is what is wrong
        return k + ":inner", T.wrap_records(hs2, cuts)
    if k == "struct-trunc":
        cut = r.randrange(4, L)
        hs2 = b"\x01" + struct.pack("!I", cut - 4)[1:] + hs[4:cut]
        return k, T.wrap_records(hs2, [c for c in cuts if c < cut])
    if k == "type":
        return k, T.wrap_records(bytes([r.choice([0, 2, 11, 16, 255])]) + hs[1:], cuts)
    wire = T.wrap_records(hs, cuts)
    bounds = record_bounds(L, cuts)
    if k == "empty-record":
        b = r.choice(bounds)
        return k, wire[:b] + b"\x16\x03\x01\x00\x00" + wire[b:]
    if k == "alert":
        b = r.choice(bounds)
        return k, wire[:b] + b"\x15\x03\x01\x00\x02\x01\x00" + wire[b:]
    if k == "ccs-first":
        return k, b"\x14\x03\x03\x00\x01\x01" + wire
    if k == "flip":
        bs = bytearray(wire)
        for _ in range(r.choice([1, 1, 2, 5])):
            i = r.randrange(len(bs))
            bs[i] ^= 1 << r.randrange(8)
        return k, bytes(bs)
    if k == "insert":
        i = r.randrange(len(wire) + 1)
        return k, wire[:i] + bytes(r.getrandbits(8) for _ in range(r.choice([1, 2, 5]))) + wire[i:]
    if k == "delete":
        i = r.randrange(len(wire))
        return k, wire[:i] + wire[i + r.choice([1, 2, 5]) :]
    if k == "rectype":
        return k, bytes([r.choice([0x14, 0x15, 0x17, 0x18, 0x00, 0x80])]) + wire[1:]
    if k == "recversion":
        return k, wire[:1] + r.choice([b"\x03\x04", b"\x02\x00", b"\xfe\xfd", b"\x04\x01", b"\x03\xff", b"\x00\x03"]) + wire[3:]
    if k == "garbage-tail":
        return k, wire + bytes(r.getrandbits(8) for _ in range(r.choice([1, 5, 50])))
    if k in ("reclen+1", "reclen-1"):
        b = r.choice(bounds)
        v = struct.unpack("!H", wire[b + 3 : b + 5])[0] + (1 if k == "reclen+1" else -1)
        return k, wire[: b + 3] + struct.pack("!H", v % 65536) + wire[b + 5 :]
    raise AssertionError(k)


def gen_random(r):
    k = r.choice(["random", "rechdr+random", "hshdr+random", "short", "dtls-random", "http"])
    if k == "random":
        return k, False, bytes(r.getrandbits(8) for _ in range(r.choice([0, 1, 4, 5, 6, 40, 300])))
    if k == "rechdr+random":
        n = r.choice([0, 1, 3, 4, 40, 300])
        body = bytes(r.getrandbits(8) for _ in range(n))
        return k, False, b"\x16\x03" + bytes([r.randrange(4)]) + struct.pack("!H", r.choice([n, n, n + 1, max(n - 1, 0)])) + body
    if k == "hshdr+random":
        n = r.choice([0, 1, 2, 34, 35, 38, 41, 60, 300])
        body = bytes(r.getrandbits(8) for _ in range(n))
        return k, False, T.wrap_records(b"\x01" + struct.pack("!I", n)[1:] + body, [])
    if k == "short":
        return k, False, b"\x16\x03\x01\x00\x05\x01\x00\x00\x01"[: r.randrange(10)]
    if k == "http":
        return k, False, r.choice([b"GET / HTTP/1.1\r\n\r\n", b"\x16\x03\x01", b"\x80\x2e\x01\x03\x01", b"\x16\x03\x01\x00\x01\x01" * 5])
    n = r.choice([0, 1, 12, 13, 60, 200])
    body = bytes(r.getrandbits(8) for _ in range(n))
    if r.random() < 0.6 and n >= 12:
        body = b"\x01" + struct.pack("!I", n - 12)[1:] + b"\x00\x00" + b"\x00\x00\x00" + struct.pack("!I", n - 12)[1:] + body[12:]
    return k, True, T.wrap_records(body, [], dtls=True, version=r.choice([0xFEFD, 0xFEFE, 0xFEFF])) if body else b"\x16\xfe\xfd"


def ref_verdict(data, dtls=False):
    """-> ('hello', parsed dict) | ('incomplete', None) | ('reject', reason)"""
    try:
        k, hs = T.unwrap_records(data, dtls=dtls)
        if k != "hello":
            return "incomplete", None
        # record versions outside the assumed domain are not 'accepted' by the reference
        off = 0
        used = 0
        hdr = 13 if dtls else 5
        while used < len(hs):
            minor = data[off + 2]
            if dtls:
                if minor not in (0xFD, 0xFF):
                    return "reject", "record version"
            elif minor > 3:
                return "reject", "record version"
            n = struct.unpack("!H", data[off + hdr - 2 : off + hdr])[0]
            if n > T.MAX_RECORD:
                return "reject", "record overflow"
            used += n
            off += hdr + n
        parsed = T.parse(hs, dtls=dtls)
        if parsed["duplicate_types"]:
            # a hello repeating an extension type is malformed (RFC 8446 4.2); which of two server_name / ALPN
            # extensions counts is undefined, so the reference does not accept it (tolerance 3.7: recorded only)
            return "reject", "duplicate extension type"
        return "hello", parsed
    except T.ParseError as e:
        return "reject", str(e)


DEGENERATE_BODIES = {
    0: [b"\x00\x00", b"", b"\x00", b"\x00\x03\x00\x00\x00", b"\x00\x00\x00\x00\x03abc", b"\x00\x09\x00\x00\x03abc", b"\x00\x06\x00\x00\x03abc\x00",
        b"\xff\xff\x00\x00\x01a", b"\x00\x03\x01\x00\x00", b"\x00\x06\x00\x00\x00\x00\x00\x00", b"\x00\x04\x00\x00\x05a"],
    16: [b"\x00\x00", b"", b"\x00", b"\x00\x01\x00", b"\x00\x00\x02h2", b"\x00\x09\x02h2", b"\x00\x03\x02h2\x00", b"\x00\x02\x05h", b"\x00\x02\x00\x00"],
}


def gen_degenerate(r):
    """A structurally complete hello whose server_name / ALPN extension body is degenerate: empty list, zero-length
    names, list length not matching the body, truncated entry. -> (name, dtls, wire)"""
    dtls = r.random() < 0.2
    t = r.choice([0, 0, 16])
    body = r.choice(DEGENERATE_BODIES[t])
    exts = [(t, body)]
    if r.random() < 0.5:
        exts.append((0, T.sni_ext_body([(0, rhost(r))])) if t == 16 or r.random() < 0.5 else (16, T.alpn_ext_body([b"h2"])))
    for _ in range(r.choice([0, 0, 1, 3])):
        exts.append((r.choice(EXT_POOL + T.GREASE), bytes(r.getrandbits(8) for _ in range(r.choice([0, 2, 9])))))
    r.shuffle(exts)
    hs = T.build_client_hello(
        ciphers=[r.choice(CIPHER_POOL) for _ in range(r.choice([1, 3, 9]))], extensions=exts, dtls=dtls,
        legacy_version=0xFEFD if dtls else 0x0303, random=bytes(r.getrandbits(8) for _ in range(32)),
        session_id=bytes(r.getrandbits(8) for _ in range(r.choice([0, 32]))), cookie=b"",
    )
    if dtls:
        return f"degenerate-ext{t}", True, T.wrap_records(hs, dtls=True, version=0xFEFD)
    return f"degenerate-ext{t}", False, T.wrap_records(hs, gen_cuts(r, len(hs))[1] if r.random() < 0.4 else [])


def check_hostile(ctx, r):
    x = r.random()
    if x < 0.14:
        kind, dtls, wire = gen_degenerate(r)
        feats = None
    elif x < 0.80:
        hs, truth, feats = gen_hello(r)
        kind, wire = mutate(r, hs)
        dtls = False
    else:
        kind, dtls, wire = gen_random(r)
        feats = None
    w = {"mutation": kind, "wire": wire[:1200], "wire_len": len(wire), "dtls": dtls}
    outcome, val = parse_real(ctx, wire, dtls, "parse(hostile)", w)
    rk, rv = ref_verdict(wire, dtls)
    obs = None
    if outcome == "hello":
        obs = read_accessors(ctx, val, dtls, w)
    ctx.seen("hostile_verdict_pairs", f"ref={rk} real={outcome}")
    if rk == "hello":
        # reference accepts: mitmproxy must agree (tolerance 3.7 covers only the other direction)
        ctx.count("hostile_ref_accepts_compared")
        names = rv["sni_names"]
        first = rv["sni"]
        strict = names is None or (len(names) == 1 and names[0][0] == 0 and sni_is_plain(first)) or first is None
        t2 = {"ciphers": rv["ciphers"], "extensions": rv["extensions"] or [], "alpn": rv["alpn"] or [], "sni_strict": strict, "sni_first": first, "sni_names": names}
        if outcome in ("none", "valueerror"):
            ctx.violation("rejects-wellformed-hello", {**w, "outcome": outcome, "exc": repr(val)[:200]}, classify("rejects-valid-hello", dtls=dtls, rec_version=struct.unpack("!H", wire[1:3])[0] if len(wire) > 2 else None))
        elif obs is not None:
            for d in compare(obs, t2):
                ctx.violation(f"reported-{d[0]}-differs", {**w, "field": d[0], "expected": d[1], "got": d[2]})
    elif outcome == "hello":
        ctx.count("lenient_accepts_recorded")  # tolerance 3.7
    # layer totality under segmentation (and, recorded only, verdict agreement with the whole-buffer parse)
    if not dtls or len(wire) > 0:
        sk, segs = gen_segments(r, wire, [0]) if not dtls else ("whole", [wire])
        segs = [s for s in segs if s] or [b"\x00"]
        ctx.count("layer_total")
        try:
            res = drive_layer(segs, dtls=dtls)
            lv = res["verdict"]
            ctx.seen("hostile_layer_vs_parse", f"parse={outcome} layer={lv}")
            if rk == "hello" and lv != "accept":
                ctx.violation("layer-rejects-wellformed-hello", {**w, "seg": sk, "seg_lens": [len(s) for s in segs][:40], "verdict": lv, "logs": res["logs"][:3]}, classify("layer-verdict-differs", dtls=dtls, rec_version=struct.unpack("!H", wire[1:3])[0] if len(wire) > 2 else None))
        except Exception as e:  # noqa
            from vf.core import exc_site
            lv = "raise"
            ctx.violation(f"layer-raises:{type(e).__name__}@{exc_site(e)}", {**w, "seg_lens": [len(s) for s in segs][:40], "exc": repr(e)[:300]})
    else:
        lv = "-"
    site = str(val)[:24] if outcome == "valueerror" else ""
    sig = ("hostile", kind, rk, outcome, lv, site, min(len(wire), 6) if len(wire) < 6 else "6+")
    return sig, outcome in ("hello", "valueerror") or rk != "incomplete", {"mutation": kind, "wire": wire[:200], "ref": rk, "real": outcome, "layer": lv}


def sni_is_plain(name):
    if name is None:
        return False
    labs = name.split(b".")
    repl = b".".join(b"x" if lab in ALABELS else lab for lab in labs)
    return T.plain_hostname(repl)


def run(ctx):
    # gen_sni's strict classes must be judged plain by the reference syntax check (harness self-test)
    for i in ctx.cases():
        r = ctx.rng
        x = r.random()
        if x < 0.55:
            sig, nt, sample = check_valid_tls(ctx, r)
        elif x < 0.67:
            sig, nt, sample = check_valid_dtls(ctx, r)
        else:
            sig, nt, sample = check_hostile(ctx, r)
        ctx.case(sig, nontrivial=nt, sample=sample)
