"""C17 -- the certificate store is bounded and never serves a certificate for other names.

Monitor (M1, history level, lock-step with vf/ref/c17_certcache.py): random histories of `CertStore.get_cert`
calls and `CertStore.add_cert` registrations against a real store (real CA key, real `dummy_cert`).  After every
call: (bound) the number of distinct generated entries reachable from `CertStore.certs`, and the length of
`expire_queue`, are <= STORE_CAP; (names) the returned entry is either one of the registered custom entries that
the model lists for one of the requested names / wildcard forms / "*", or a generated certificate whose subject
CN and SAN set -- re-parsed from the PEM with `cryptography`, not via mitmproxy's Cert -- are exactly the
requested ones; (repeat) when the model says the key is still cached the very same entry object is returned.
"""
import ipaddress
import shutil
import tempfile

from cryptography import x509
from cryptography.hazmat.primitives import hashes
from cryptography.x509.oid import NameOID
import datetime
import time

from mitmproxy import certs

from vf.core import Inconclusive

from vf.ref.c17_certcache import CertCacheModel, lookup_names

PROPERTY = "C17"
LEVEL = "exploration"
BUDGET = {"quick": (400, 13), "thorough": (20_000, 170)}
WORKERS = {"quick": 2, "thorough": 16}
REQUIRED = ["bound", "names_generated", "names_custom", "repeat_same", "evictions", "cache_hits"]
ENGINE = "direct"
TECHNIQUE = "history-level class invariant + lock-step FIFO/registration reference model on the real CertStore"
RULE = (
    "case = history of 40-400 get_cert/add_cert calls on a fresh CertStore (one CA per worker) over a universe of ~170 "
    "names (hosts in 4 zones, nested sub-domains, IPv4/IPv6 addresses, wildcard-shaped names, a 70-character name, an IDN "
    "given as legacy str SAN; plus RFC822Name / URI / DirectoryName / RegisteredID / OtherName SANs whose text contains a pool "
    "host name -- these match custom certificates only by their exact string, never by wildcard forms), requests = (CN or None, 0-3 SANs passed as list / tuple / x509.GeneralNames / generator / map object / "
    "list iterator -- the cache and the oracle are keyed by the logical request, not the container), biased to re-request the newest, the oldest-still-cached "
    "and the just-evicted key; custom certificates registered under exact / wildcard / '*' specs and via their own CN/SANs "
    "at random points; distinct = (eviction bucket, hit bucket, kinds of custom registration matched, IP/wildcard/legacy/"
    "no-CN request features, length class); non-trivial = the history caused >= 1 eviction and >= 1 cache hit. Every third of the "
    "histories are 'focused': 30-100 calls over a 9-name pool from three zones, 2-4 CNs re-requested with changing SAN "
    "lists (0-2 SANs unrelated to the CN), 1-3 custom certificates (exact / covering wildcard / '*') for names of the same "
    "pool, a fresh CertStore per history in one process; such a history is non-trivial when a custom certificate was "
    "returned at least once and a CN was answered with a generated certificate under >= 2 different SAN lists"
)
ASSUMPTIONS = [
    "capacity is CertStore.STORE_CAP read at run time; eviction order is FIFO by generation (the documented expire_queue)",
    "'same names' means identical (CN, ordered SAN list); a permuted SAN list is a different request",
    "a CN of 64+ characters is legitimately omitted from the generated subject (dummy_cert's documented rule)",
    "returning a generated certificate although a custom one matches is not counted as a violation (statement says either/or)",
]
LEVEL_TEXT = (
    "Randomised exploration of call histories with a lock-step reference model; invariants are evaluated after every "
    "call on the real object. Not exhaustive: histories are sampled from a fixed name universe."
)
LEVEL_NOTE = "Trusted: cryptography's X.509 parser (used to re-read the returned certificates), the FIFO reading of 'capacity'."

SLOW_CALL = 0.25
# the signature is Iterable[x509.GeneralName]: the same logical request is passed in all these container shapes
SHAPES = ["list", "list", "tuple", "GeneralNames", "generator", "map", "iter"]

ZONES = ["example.com", "test.org", "a.b.example.com", "internal"]


def universe():
    names = []
    for z in ZONES:
        for i in range(36):
            names.append(("dns", f"h{i}.{z}"))
    names += [("dns", z) for z in ZONES]
    names += [("dns", "*.example.com"), ("dns", "*.test.org"), ("dns", "*.b.example.com")]
    names += [("dns", "x" * 20 + "." + "y" * 40 + ".example.com")]  # 73 chars: CN omitted
    names += [("ip", f"10.0.0.{i}") for i in range(1, 13)]
    names += [("ip", "2001:db8::1"), ("ip", "::1")]
    return names


UNIVERSE = universe()


def to_general_name(n):
    kind, v = n
    if kind == "dns":
        return x509.DNSName(v)
    if kind == "ip":
        return x509.IPAddress(ipaddress.ip_address(v))
    if kind == "email":
        return x509.RFC822Name(v)
    if kind == "uri":
        return x509.UniformResourceIdentifier(v)
    if kind == "dirname":  # v = RFC 4514 string
        return x509.DirectoryName(x509.Name.from_rfc4514_string(v))
    if kind == "rid":  # v = dotted OID
        return x509.RegisteredID(x509.ObjectIdentifier(v))
    if kind == "other":  # v = "oid:utf8-text", carried as a DER UTF8String
        oid, _, text = v.partition(":")
        raw = text.encode()
        return x509.OtherName(x509.ObjectIdentifier(oid), b"\x0c" + bytes([len(raw)]) + raw)
    raise ValueError(kind)


def general_name_tuple(g):
    """Independent canonical (kind, text) of a parsed GeneralName -- inverse of to_general_name."""
    if isinstance(g, x509.DNSName):
        return ("dns", g.value)
    if isinstance(g, x509.IPAddress):
        return ("ip", str(g.value))
    if isinstance(g, x509.RFC822Name):
        return ("email", g.value)
    if isinstance(g, x509.UniformResourceIdentifier):
        return ("uri", g.value)
    if isinstance(g, x509.DirectoryName):
        return ("dirname", g.value.rfc4514_string())
    if isinstance(g, x509.RegisteredID):
        return ("rid", g.value.dotted_string)
    if isinstance(g, x509.OtherName):
        return ("other", g.type_id.dotted_string + ":" + g.value[2:].decode("utf8", "replace"))
    return ("unknown", repr(g))


def exotic_san(r, pool):
    """A non-DNS, non-IP SAN whose text contains / ends in a host name of the pool."""
    d = r.choice([v for k, v in pool if k == "dns" and not v.startswith("*")] or ["h1.example.com"])
    kind = r.choice(["email", "email", "uri", "uri", "dirname", "rid", "other"])
    if kind == "email":
        return ("email", r.choice([f"hostmaster@{d}", f"hostmaster@mail.{d}"]))
    if kind == "uri":
        return ("uri", r.choice([f"https://{d}", f"https://login.{d}", f"https://{d}/path", f"spiffe://{d}"]))
    if kind == "dirname":
        return ("dirname", f"CN={d[-60:]}")  # a CN attribute holds at most 64 characters
    if kind == "rid":
        return ("rid", r.choice(["1.2.3.4", "1.3.6.1.4.1.311.20.2.3"]))
    return ("other", "1.3.6.1.4.1.311.20.2.3:" + f"user@{d}"[:100])


def read_cert(entry):
    """Independent re-read of the returned certificate: (cn or None, [san tuples])."""
    c = x509.load_pem_x509_certificate(entry.cert.to_pem())
    cns = c.subject.get_attributes_for_oid(NameOID.COMMON_NAME)
    cn = cns[0].value if cns else None
    sans = []
    try:
        ext = c.extensions.get_extension_for_class(x509.SubjectAlternativeName).value
        for g in ext:
            sans.append(general_name_tuple(g))
    except x509.ExtensionNotFound:
        pass
    return cn, sans


def make_custom(store, cn, sans):
    """A custom leaf built with cryptography directly (signed with the worker's CA key, which is irrelevant here)."""
    now = datetime.datetime(2024, 1, 1)
    b = x509.CertificateBuilder().issuer_name(x509.Name([x509.NameAttribute(NameOID.COMMON_NAME, "custom-ca")]))
    b = b.subject_name(x509.Name([x509.NameAttribute(NameOID.COMMON_NAME, cn)] if cn else []))
    b = b.public_key(store.default_privatekey.public_key()).serial_number(x509.random_serial_number())
    b = b.not_valid_before(now).not_valid_after(now + datetime.timedelta(days=3650))
    if sans or not cn:
        b = b.add_extension(x509.SubjectAlternativeName([to_general_name(s) for s in sans]), critical=not cn)
    cert = b.sign(store.default_privatekey, hashes.SHA256())
    return certs.CertStoreEntry(certs.Cert(cert), store.default_privatekey, None, [])


def classify(kind, info):
    return None


def one_history(ctx, storedir):
    r = ctx.rng
    store = certs.CertStore.from_store(storedir, "mitmproxy", 2048)
    cap = certs.CertStore.STORE_CAP
    model = CertCacheModel(cap)
    focused = ctx.case_index % 3 == 0  # incl. the first history of every worker
    if focused:
        # small pool, few CNs re-used with changing SAN lists, custom certs for names of the same pool:
        # exercises "a custom certificate is only returned for the names of THIS request" across requests
        # that share a CN (and across CertStore instances of one process).
        n_calls = r.choice([30, 60, 100])
        pool = (r.sample([n for n in UNIVERSE if n[1].endswith(".a.b.example.com") and n[1].startswith("h")], 3)
                + r.sample([n for n in UNIVERSE if n[1].endswith(".test.org") and n[1].startswith("h")], 3)
                + r.sample([n for n in UNIVERSE if n[1].endswith(".example.com") and n[1].startswith("h") and ".b." not in n[1]], 2)
                + r.sample([n for n in UNIVERSE if n[0] == "ip"], 1))
        cn_pool = [n[1] for n in r.sample(pool[:8], r.choice([2, 3, 4]))]
        n_custom = r.choice([1, 2, 3])
        custom_steps = set(r.sample(range(max(2, n_calls * 2 // 3)), n_custom))
    else:
        n_calls = r.choice([40, 130, 160, 220, 300, 400])
        pool = r.sample(UNIVERSE, r.choice([30, 110, 150, len(UNIVERSE)]))
        cn_pool = []
        n_custom = r.choice([0, 0, 1, 1, 2, 4, 7])
        custom_steps = set(r.sample(range(n_calls), n_custom))
    cn_sans_seen = {}  # cn -> set of SAN tuples requested with it
    varied_cn_generated = False
    custom_entries = {}  # label -> entry
    custom_ids = {}  # id(entry) -> label
    by_key = {}  # model key -> entry returned when generated
    keep = []  # strong references (ids must stay unique)
    recent = []
    feats = set()
    custom_kinds = set()
    hits = 0
    hist = []
    star_registered = False

    slow = [0]

    def gen_request():
        x = r.random()
        if slow[0] and recent:
            return recent[-1][0], list(recent[-1][1]), False  # re-time the same lookup
        if model.fifo and x < 0.12:
            k = model.fifo[0]  # oldest still cached
        elif model.fifo and x < 0.22:
            k = model.fifo[-1]
        elif model.evicted and x < 0.28:
            k = model.evicted[-1]
        elif recent and x < 0.45:
            k = r.choice(recent)
        else:
            k = None
        if k is not None:
            return k[0], list(k[1]), False
        if focused and x < 0.9:
            fs = [r.choice(pool) for _ in range(r.choice([0, 0, 1, 1, 2]))]
            if r.random() < 0.35:
                fs.insert(r.randrange(len(fs) + 1), exotic_san(r, pool))
            return r.choice(cn_pool), fs, False
        nsan = r.choice([0, 1, 1, 1, 2, 3])
        sans = [r.choice(pool) for _ in range(nsan)]
        cn_src = r.choice(pool)
        y = r.random()
        if y < 0.25 or cn_src[1].startswith("*"):
            cn = None
        elif y < 0.8 and sans and sans[0][0] == "dns" and not sans[0][1].startswith("*"):
            cn = sans[0][1]
        else:
            cn = cn_src[1]
        if cn is None and not sans:
            sans = [r.choice(pool)]
        if r.random() < 0.12:
            sans.insert(r.randrange(len(sans) + 1), exotic_san(r, pool))
        legacy = r.random() < 0.1 and all(k in ("dns", "ip") for k, _ in sans)
        return cn, sans, legacy

    for step in range(n_calls):
        if step in custom_steps:
            # ---- custom registration
            label = f"custom{len(custom_entries)}"
            ccn = r.choice([None, None, None, r.choice(pool)[1]] if focused else [None, r.choice(pool)[1]])
            if ccn is not None and (len(ccn) >= 64 or ":" in ccn):
                ccn = None
            csans = [r.choice(pool) for _ in range(r.choice([0, 0, 1, 2]))]
            if ccn is None and not csans:
                csans = [r.choice(pool)]
            if r.random() < 0.2:
                ex = exotic_san(r, pool)
                if ex[0] in ("email", "uri"):  # registered by the store under exactly this string
                    csans.append(ex)
            specs = []
            for _ in range(r.choice([0, 1, 1, 2])):
                z = r.random()
                base = r.choice(pool)[1]
                if z < 0.45:
                    specs.append(base)
                    custom_kinds.add("spec-exact")
                elif z < 0.93 or star_registered or step < n_calls * 0.6:
                    parts = base.split(".")
                    if len(parts) > 2 and not base.startswith("*") and (focused or len(parts) > 3 or r.random() < 0.3):
                        specs.append("*." + ".".join(parts[1:]))
                        custom_kinds.add("spec-wildcard")
                    else:
                        specs.append(base)
                        custom_kinds.add("spec-exact")
                else:
                    specs.append("*")
                    star_registered = True
                    custom_kinds.add("spec-star")
            entry = make_custom(store, ccn, csans)
            store.add_cert(entry, *specs)
            custom_entries[label] = entry
            custom_ids[id(entry)] = label
            keep.append(entry)
            model.register(label, ([ccn] if ccn else []) + [v for _k, v in csans] + specs)
            hist.append(("add_cert", label, ccn, csans, specs))
            ctx.count("registrations")
        else:
            cn, sans, legacy = gen_request()
            if legacy:
                feats.add("legacy-str-sans")
                shape = "legacy-str-list"
                arg = [v for _k, v in sans] + (["bücher.example.com"] if r.random() < 0.3 else [])
                if len(arg) > len(sans):
                    sans = sans + [("dns", "xn--bcher-kva.example.com")]
            else:
                gns = [to_general_name(s) for s in sans]
                shape = r.choice(SHAPES)
                feats.add("sans-as-" + shape)
                ctx.seen("san_container_shapes", shape)
                if shape == "list":
                    arg = gns
                elif shape == "tuple":
                    arg = tuple(gns)
                elif shape == "GeneralNames":
                    arg = x509.GeneralNames(gns)
                elif shape == "generator":
                    arg = (g for g in gns)
                elif shape == "map":
                    arg = map(to_general_name, list(sans))
                else:
                    arg = iter(gns)
            if any(k == "ip" for k, _ in sans):
                feats.add("ip-san")
            for k, _ in sans:
                if k not in ("dns", "ip"):
                    feats.add("non-host-san")
                    ctx.seen("san_types", k)
            if any(v.startswith("*") for _k, v in sans):
                feats.add("wildcard-shaped-request")
            if cn is None:
                feats.add("no-cn")
            if len(sans) > 1:
                feats.add("multi-san")
            candidates = model.custom_candidates(cn, sans)
            was_cached = model.is_cached(cn, sans)
            org = "Org" if r.random() < 0.05 else None
            try:
                t_call = time.monotonic()
                entry = store.get_cert(cn, arg, org)
                dt = time.monotonic() - t_call
            except Exception as e:
                ctx.violation("get_cert-raises", {"cn": cn, "sans": sans, "exc": repr(e), "history_tail": hist[-5:]}, None)
                hist.append(("get_cert", cn, sans, "EXC", shape))
                continue
            # a lookup normally takes < 1 ms; two consecutive calls > SLOW_CALL s mean the store degenerated
            # (cannot be judged further, and continuing would exhaust memory/time): stop this worker gracefully.
            slow[0] = slow[0] + 1 if dt > SLOW_CALL else 0
            if slow[0] >= 2:
                ctx.count("slow_get_cert_abort")
                ctx.case(("aborted-slow", focused), nontrivial=False)
                raise Inconclusive(f"get_cert took {dt:.2f}s twice in a row (normal < 1 ms); worker stopped after {ctx.evaluations} histories")
            keep.append(entry)
            key = model.key(cn, sans)
            recent.append(key)
            if len(recent) > 12:
                recent.pop(0)
            label = custom_ids.get(id(entry))
            if label is not None:
                # ---- custom certificate returned
                ctx.count("names_custom")
                hist.append(("get_cert", cn, sans, label, shape))
                if label not in candidates:
                    ctx.violation(
                        "custom-cert-for-unrelated-names",
                        {"cn": cn, "sans": sans, "sans_passed_as": shape, "returned": label, "model_candidates": candidates,
                         "lookup_names": lookup_names(cn, sans), "registrations": [h for h in hist if h[0] == "add_cert"]},
                        classify("custom", None),
                    )
                elif candidates and label == candidates[0]:
                    ctx.count("custom_first_match")
                feats.add("custom-returned")
                if was_cached:
                    feats.add("custom-overrides-cached-generated")
            else:
                # ---- generated certificate returned
                ctx.count("names_generated")
                if cn is not None:
                    seen = cn_sans_seen.setdefault(cn, set())
                    seen.add(tuple(sans))
                    if len(seen) > 1 and custom_entries:
                        varied_cn_generated = True
                        feats.add("same-cn-other-sans-with-customs-registered")
                if candidates:
                    ctx.count("generated_despite_custom_match")
                got_cn, got_sans = read_cert(entry)
                want_cn = cn if (cn is not None and len(cn) < 64) else None
                if sorted(got_sans) != sorted(sans) or got_cn != want_cn:
                    ctx.violation(
                        "generated-cert-for-other-names",
                        {"requested": [cn, sans], "sans_passed_as": shape, "certificate": [got_cn, got_sans], "history_tail": hist[-5:]},
                        classify("names", None),
                    )
                ctx.count("repeat_same")
                if was_cached and model.fifo[0] == key:
                    feats.add("hit-on-oldest-cached")
                if key in model.evicted and not was_cached:
                    feats.add("regenerate-after-eviction")
                if was_cached and not candidates:
                    hits += 1
                    ctx.count("cache_hits")
                    if by_key.get(key) is not entry:
                        ctx.violation(
                            "repeat-request-returns-different-certificate-while-cached",
                            {"requested": [cn, sans], "sans_passed_as": shape, "model_fifo_position": model.fifo.index(key), "model_fifo_len": len(model.fifo),
                             "generated_total": model.generated_total, "history_tail": hist[-5:]},
                            classify("repeat", None),
                        )
                elif was_cached:
                    # a custom registration matched but the store still answered from the generated cache
                    if by_key.get(key) is not entry:
                        ctx.count("regenerated_while_custom_matches")
                ev = model.generated(cn, sans)
                if ev is not None:
                    ctx.count("evictions")
                    by_key.pop(ev, None)
                by_key[key] = entry
                hist.append(("get_cert", cn, sans, "generated" + ("/hit" if was_cached else ""), shape))
        # ---- class invariant after every call
        ctx.count("bound")
        gen = {id(v) for v in store.certs.values() if id(v) not in custom_ids}
        if len(gen) > cap or len(store.expire_queue) > cap:
            ctx.violation(
                "more-generated-certificates-than-capacity",
                {"reachable_generated": len(gen), "expire_queue": len(store.expire_queue), "cap": cap, "step": step,
                 "model_generated_total": model.generated_total, "history_tail": hist[-3:]},
                classify("bound", None),
            )
            break
    ev_b = 0 if model.evictions == 0 else 1 if model.evictions < 10 else 2 if model.evictions < 50 else 3
    hit_b = 0 if hits == 0 else 1 if hits < 20 else 2
    sig = (focused, ev_b, hit_b, n_custom, tuple(sorted(custom_kinds)), tuple(sorted(feats)), n_calls)
    nontrivial = (model.evictions >= 1 and hits >= 1) or (focused and "custom-returned" in feats and varied_cn_generated)
    ctx.case(sig, nontrivial=nontrivial,
             sample={"calls": n_calls, "evictions": model.evictions, "hits": hits, "head": hist[:4], "tail": hist[-3:]})


def run(ctx):
    d = tempfile.mkdtemp(prefix=f"vf-c17-{ctx.worker}-", dir="/tmp")
    try:
        for _ in ctx.cases():
            one_history(ctx, d)
    finally:
        shutil.rmtree(d, ignore_errors=True)
