"""C27 -- DNS replies correspond to client queries; TCP framing ignores segmentation.

Engine A: the real ``DNSLayer`` as top layer (reverse:dns, UDP and TCP), a scripted client sending 1-8 queries (duplicate ids
included, optional malformed element / truncated tail / early EOF), a reactive upstream following a per-query script (reply,
duplicate reply, held and re-ordered reply, reply with an id nobody asked for before/after the real one or ahead of the query that
will use it, no reply, close, malformed frame), refused upstream connects, and an addon policy at dns_request (pass / set a response /
set an error / delayed completion).  All decoding of wire bytes is done by vf/ref/dns.py and the harness's own TCP framing.  Monitors:

  hook.request       every dns_request / dns_response / dns_error hook: the flow has a request; its id is one a client query
                     (already delivered) used; a present response has the request's id
  reply.matches      every message written to the client decodes strictly and has the id and question section of a query that
                     client had sent before (delivery bookkeeping from the driver log and the known stream layout)
  reply.forwarded    a reply carrying an upstream answer is, message for message, one the upstream sent (each copy the upstream
                     sent accounts for at most one copy delivered to the client)
  bulk.*             large-volume TCP cases (a few per worker): 100-300 pipelined queries and their replies, 70-260 KiB per direction,
                     incl. messages of exactly 65535 octets, delivered whole / in 65535..65538-octet / 16384 / 997-octet segments:
                     every query reaches a dns_request hook in order, every query gets exactly its upstream reply, nothing is closed
  servfail           every other reply is a synthesised SERVFAIL: QR=1, RCODE=2, same id / opcode / RD / question as a delivered
                     query, and one dns_error hook with that id exists per such reply (and vice versa while the client is open)
  extract.client     sequence of requests seen by dns_request hooks == sequence of queries completely delivered (by the harness's
                     own accounting of the stream layout) before the first malformed element, whatever the segmentation
  extract.upstream   sequence of distinct solicited upstream responses seen by dns_response hooks == sequence the upstream sent
  malformed.closes   a zero length prefix / undecodable message is followed by CloseConnection of the connection that sent it
"""
import ipaddress

from mitmproxy import dns as mdns
from mitmproxy import flow as mflow

from vf import sansio
from vf.gen import c26_dnsforward as G
from vf.peers import cut
from vf.ref import dns as R

PROPERTY = "C27"
LEVEL = "exploration"
ENGINE = "sansio"
TECHNIQUE = "runtime monitoring of hooks and client-side wire bytes of the real DNS layer under scripted upstream anomalies and TCP segmentations"
BUDGET = {"quick": (4000, 16), "thorough": (150_000, 200)}
WORKERS = {"quick": 2, "thorough": 16}
REQUIRED = ["bulk.cases", "bulk.segment_ge_65535", "bulk.replies_checked", "hook.request", "unsolicited.silent", "coalesced.unsolicited_after_solicited", "reply.matches", "reply.forwarded", "servfail", "extract.client", "extract.upstream", "malformed.closes",
            "plan.unsolicited", "plan.dup_id", "plan.connect_refused", "plan.addon_response", "plan.addon_error", "seg.bytes", "seg.split"]
RULE = (
    "case = (transport, 1-8 queries with ids drawn with repetition, optional malformed element [TCP zero length prefix, undecodable "
    "frame/datagram, truncated tail] or early client EOF, TCP segmentation whole / every byte / random cuts / one split point for client and "
    "upstream streams (all replies produced for one write of the proxy travel as one chunk, so segments carry several replies; 30% of TCP cases batch every reply into one chunk), per-query upstream script [reply, duplicate, second copy of an older reply, hold-and-reorder, unsolicited id before/after/ahead of its query, none, "
    "close, malformed], refused connect number, addon action per query [pass, set response, set error, delay], schedule random/fifo); "
    "plus a few large-volume TCP cases per worker (first four case indices and every 3000th: 100-300 pipelined queries with EDNS padding and "
    "their TXT replies, 70-260 KiB per direction, messages of exactly 65535 octets, client and upstream streams in segments of 65535 / whole / "
    "65536 / 65537 / 65538 / 16384 / 997 octets or random cuts); distinct = (transport, segmentation kinds, sorted anomaly kinds exercised, outcome classes, min(#queries,3)); non-trivial = at least two "
    "queries or an anomaly in the script"
)
ASSUMPTIONS = [
    "a reply 'answers a query that client sent' iff a query with the same id and question section was delivered to the layer before the reply "
    "was written (duplicate upstream replies and replies to an id the client reuses are therefore accepted as far as this clause goes)",
    "an upstream that answers an outstanding id with another question is outside the workload (the proxy is transparent)",
    "'message for message': a forwarded reply may reach the client at most as many times as the upstream sent it (an upstream duplicate is "
    "passed on; a copy the proxy makes up itself for a query that reuses an answered id does not answer that query)",
    "hook-level correspondence is checked on ids only (flows are keyed by id; with duplicate ids a flow legitimately carries the latest query)",
]
LEVEL_TEXT = (
    "Sequences of queries and scripted upstream behaviour are sampled and run through the real layer under random schedules and "
    "segmentations; every hook and every client-bound message is judged by monitors that use only the harness's own DNS codec and "
    "framing, so the assurance is that of exploration over the listed anomaly kinds."
)
LEVEL_NOTE = "Trusted: vf/ref/dns.py, the harness's stream layout accounting, vf/sansio.py's ConnectionHandler model (hooks block the layer)."

ZONE = (b"c27", b"test")
SERVFAIL = 2
UP_ACTIONS = ["reply"] * 8 + ["dup", "dup-old", "hold", "unsol-before", "unsol-after", "unsol-after", "unsol-early", "none"]
UP_RARE = ["close", "zero-prefix", "garbage"]
ADDON_ACTIONS = ["pass"] * 6 + ["respond", "error", "delay"]
GARBAGE = [b"Not a DNS packet", b"\x00\x01\x01\x00\x00\x01\x00\x00\x00\x00\x00\x00", b"\x00" * 11, b"\x12\x34\x01\x00\x00\x01\x00\x00\x00\x00\x00\x00\x05abc"]
UNKNOWN_ID = "upstream-reply-with-id-of-no-delivered-query"
SAME_SEGMENT = "valid-messages-before-malformed-one-in-same-segment-dropped"
STALE_REPLAY = "stored-response-replayed-for-query-reusing-an-answered-id"


def qname(k):
    return (b"q%d" % k,) + ZONE


def build_queries(r, n):
    qs, pool = [], []
    for k in range(n):
        mid = r.choice(pool) if pool and r.random() < 0.3 else r.choice([0, 65535, r.getrandbits(16), r.getrandbits(16), r.getrandbits(16)])
        pool.append(mid)
        msg = {"id": mid, "qr": False, "opcode": r.choice([0, 0, 0, 0, 1, 2, 4, 5, 15]), "rd": r.random() < 0.6, "z": r.choice([0, 0, 0, 2, 1]),
               "questions": [{"name": qname(k), "type": r.choice([1, 28, 15, 16, 255]), "class": r.choice([1, 1, 3])}],
               "answers": [], "authorities": [], "additionals": []}
        if r.random() < 0.15:
            msg["questions"].append({"name": (b"second",) + qname(k), "type": 1, "class": 1})
        if r.random() < 0.3:
            msg["additionals"].append(G.gen_opt(r))
        wire = R.encode(msg, compress=r.random() < 0.5)
        qs.append({"k": k, "id": mid, "msg": msg, "wire": wire, "sem": R.semantic(R.decode(wire, allow_trailing=False)),
                   "text": ".".join(x.decode() for x in qname(k))})
    return qs


def a_record(name, b4):
    return {"name": name, "type": 1, "class": 1, "ttl": 60, "rdata": bytes(b4)}


def reply_for(q, serial, r):
    m = q["msg"]
    msg = {"id": m["id"], "qr": True, "opcode": m["opcode"], "aa": r.random() < 0.3, "rd": m["rd"], "ra": True, "rcode": r.choice([0, 0, 0, 3]),
           "questions": m["questions"], "answers": [a_record(m["questions"][0]["name"], [10, q["k"], serial >> 8, serial & 255])],
           "authorities": [], "additionals": []}
    return R.encode(msg, compress=r.random() < 0.5)


def unsolicited(mid, serial, r):
    name = (b"unsolicited",) + ZONE
    msg = {"id": mid, "qr": True, "rd": True, "ra": True, "questions": [{"name": name, "type": 1, "class": 1}],
           "answers": [a_record(name, [10, 200, serial >> 8, serial & 255])], "authorities": [], "additionals": []}
    return R.encode(msg, compress=r.random() < 0.5)


def classify(kind, info):
    """Mechanism from the case history (what the scripts did), never from messages of exceptions."""
    if kind in ("hook-flow-without-request", "reply-id-not-a-client-query", "reply-question-differs", "hook-request-id-not-a-client-query"):
        # the upstream used this id at a moment when no delivered client query had it
        if info.get("id") in info.get("unknown_ids", ()):
            return UNKNOWN_ID
    if kind == "client-extraction-differs" and info.get("missing_share_segment_with_malformed"):
        return SAME_SEGMENT
    return None


def run_case(ctx, opts):
    r = ctx.rng
    transport = r.choice(["udp", "tcp"])
    n = r.choice([1, 1, 2, 2, 3, 4, 6, 8])
    qs = build_queries(r, n)
    ids = [q["id"] for q in qs]
    all_ids = set(ids)
    anomalies = set()
    if len(all_ids) < len(ids):
        anomalies.add("dup-id")
        ctx.count("plan.dup_id")

    # ---- scripts
    refused = r.choice([0, 0, 1, 2]) if r.random() < 0.15 else None
    if refused is not None:
        anomalies.add("connect-refused")
        ctx.count("plan.connect_refused")
    up_plan = {}
    early = None  # (k, id): upstream answers query k and also sends a message with the id of query k+1, which the client holds back until then
    for q in qs:
        a = r.choice(UP_RARE) if r.random() < 0.06 else r.choice(UP_ACTIONS)
        if a == "zero-prefix" and transport != "tcp":
            a = "garbage"
        if a == "unsol-early":
            k = q["k"]
            if early is None and k + 1 < n and ids[k + 1] not in ids[: k + 1]:
                early = (k, ids[k + 1])
            else:
                a = "unsol-after"
        up_plan[q["k"]] = a
    addon_plan = {q["k"]: r.choice(ADDON_ACTIONS) for q in qs}
    if early is not None:
        addon_plan[early[0]] = "pass"  # the trigger query must reach the upstream
    for a in up_plan.values():
        if a != "reply":
            anomalies.add("up-" + a)
    if any(a.startswith("unsol") for a in up_plan.values()):
        ctx.count("plan.unsolicited")

    # ---- client stream: elements with their spans
    elements = [("msg", q) for q in qs]
    if early is None and r.random() < 0.22:
        kind = r.choice(["zero-prefix", "garbage", "garbage"] if transport == "tcp" else ["garbage"])
        elements.insert(r.randint(0, len(elements)), (kind, r.choice(GARBAGE)))
        anomalies.add("client-" + kind)
    has_malformed = any(e[0] != "msg" for e in elements)
    truncated_tail = transport == "tcp" and not has_malformed and early is None and r.random() < 0.08
    client_eof = truncated_tail or (early is None and r.random() < 0.12)
    if client_eof:
        anomalies.add("client-eof")
    state = {"serial": 0, "held": [], "unknown_ids": set(), "early_sent": False, "bad_sent": False, "old": []}
    # batch mode: the upstream keeps every reply back until it has seen the last query that can reach it, then writes all of them at once
    # (with unsolicited / duplicate replies wherever the script put them), so that one TCP segment carries several replies
    passing = [k for k in range(n) if addon_plan[k] in ("pass", "delay")]
    batch_until = passing[-1] if transport == "tcp" and early is None and len(passing) >= 2 and r.random() < 0.3 else None
    if batch_until is not None:
        anomalies.add("up-batch")

    def early_gate(drv):
        return state["early_sent"] and not any(drv.inbox[c] for c in drv.servers)

    spans = []  # per element: number of stream octets (TCP) / datagrams (UDP) that must have been delivered for it to be complete
    if transport == "udp":
        segs = []
        for i, e in enumerate(elements):
            data = e[1]["wire"] if e[0] == "msg" else e[1]
            segs.append((data, early_gate) if early is not None and e[0] == "msg" and e[1]["k"] == early[0] + 1 else data)
            spans.append(i + 1)
        cseg = "datagram"
    else:
        parts = [bytearray()]
        total = 0
        for e in elements:
            if e[0] == "msg":
                chunk = G.frame(e[1]["wire"], "tcp")
                need = len(chunk)
                if early is not None and e[1]["k"] == early[0] + 1:
                    parts.append(bytearray())
            elif e[0] == "zero-prefix":
                chunk = b"\x00\x00" + r.choice([b"", b"\x00", b"trailing"])
                need = 2
            else:
                chunk = G.frame(e[1], "tcp")
                need = len(chunk)
            parts[-1] += chunk
            spans.append(total + need)
            total += len(chunk)
        if truncated_tail:
            cutoff = r.randint(1, min(len(parts[-1]) - 1, 30))
            parts[-1] = parts[-1][:-cutoff]
            anomalies.add("client-truncated-tail")
        cseg = r.choice(["whole", "bytes", "random", "random", "split"]) if total < 700 else r.choice(["whole", "random", "split"])
        ctx.count("seg." + cseg)
        segs = []
        for pi, part in enumerate(parts):
            part = bytes(part)
            ss = cut(part, r, r.randrange(1, max(2, len(part))) if cseg == "split" else cseg)
            if pi == 1 and ss:
                ss[0] = (ss[0], early_gate)
            segs += ss
    useg = r.choice(["whole", "bytes", "random", "split"]) if transport == "tcp" else "datagram"

    # ---- upstream
    def mk_serial():
        state["serial"] += 1
        return state["serial"]

    def unknown_id(near):
        for _ in range(50):
            mid = r.choice([near ^ 0x5555, (near + 1) & 0xFFFF, r.getrandbits(16)])
            if mid not in all_ids:
                return mid
        return next(x for x in range(65536) if x not in all_ids)

    def responder(_k, m, peer):
        try:
            name = R.decode(m, allow_trailing=False)["questions"][0]["name"]
            k = int(name[0][1:]) if name[1:] == ZONE and name[0][:1] == b"q" else None
        except (R.DecodeError, IndexError, ValueError):
            k = None
        if k is None or k >= len(qs):
            return []
        q = qs[k]
        a = up_plan[k]
        acts = []
        if a in ("reply", "dup", "dup-old", "unsol-before", "unsol-after", "unsol-early", "close"):
            if a == "unsol-before":
                mid = unknown_id(q["id"])
                state["unknown_ids"].add(mid)
                acts.append(unsolicited(mid, mk_serial(), r))
            rep = reply_for(q, mk_serial(), r)
            acts.append(rep)
            if a == "dup":
                acts.append(rep)
            if a == "dup-old" and state["old"]:
                acts.append(r.choice(state["old"]))  # a second copy of a reply to an id that was answered earlier
            state["old"].append(rep)
            if a == "unsol-after":
                mid = unknown_id(q["id"])
                state["unknown_ids"].add(mid)
                acts.append(unsolicited(mid, mk_serial(), r))
            if a == "unsol-early" and early is not None and early[0] == k:
                state["unknown_ids"].add(early[1])
                acts.append(unsolicited(early[1], mk_serial(), r))
                state["early_sent"] = True
            if batch_until is not None and k != batch_until and a != "close":
                state["held"] += acts[::-1]  # each block keeps its order; the release reverses the blocks
                acts = []
            else:
                acts += state["held"][::-1]
                state["held"] = []
            if a == "close":
                acts.append("close")
        elif a == "hold":
            state["held"].append(reply_for(q, mk_serial(), r))
        elif a == "zero-prefix":
            acts.append(("raw", b"\x00\x00"))
            state["bad_sent"] = True
        elif a == "garbage":
            acts.append(("raw", G.frame(r.choice(GARBAGE), transport)))
            state["bad_sent"] = True
        return acts

    ups = []

    def server_factory(drv, conn):
        p = G.DnsUpstream(transport, responder, r, useg, coalesce=True)
        ups.append(p)
        return p

    # ---- addon policy + hook log
    hooklog = []
    keep = []  # keeps response objects alive so that id() stays unique

    def policy(drv, hook):
        f = hook.flow
        req = getattr(f, "request", None)
        resp = f.response
        keep.append(resp)
        qn = req.questions[0].name if req is not None and req.questions else None
        hooklog.append({"step": drv.step_no, "name": hook.name, "has_request": req is not None, "req_id": req.id if req is not None else None,
                        "qname": qn, "resp_obj": id(resp) if resp is not None else None, "resp_id": resp.id if resp is not None else None,
                        "resp_wire": resp.packed if resp is not None else None,
                        "client_open": bool(drv.client.state & sansio.ConnectionState.CAN_WRITE)})
        if hook.name != "dns_request" or qn is None:
            return None
        try:
            k = int(qn.split(".")[0][1:])
        except ValueError:
            return None
        a = addon_plan.get(k, "pass")
        if a == "respond" and f.response is None:
            f.response = req.succeed([mdns.ResourceRecord.A(qn, ipaddress.IPv4Address(bytes([127, 0, 0, k])))])
            anomalies.add("addon-response")
            ctx.count("plan.addon_response")
        elif a == "error":
            f.error = mflow.Error("injected by addon")
            anomalies.add("addon-error")
            ctx.count("plan.addon_error")
        elif a == "delay":
            anomalies.add("addon-delay")
            return "delay"
        return None

    sched = r.choice(["random", "random", "fifo"])
    d = G.make_driver(transport, opts, r, server_factory=server_factory, schedule=sched, policy=policy,
                      open_plan=(lambda drv, conn, i: "Connection refused (injected)" if i == refused else None))
    d.attach_client_peer(sansio.ScriptPeer(list(segs) + ([sansio.EOF] if client_eof else [])))
    d.start()
    d.run()
    if d.budget_exceeded:
        d.teardown()
        ctx.count("inconclusive_cases")
        return None
    log = list(d.log)
    out_log = list(d.out_log)
    client_closed_by_proxy = any(x[0] == "cmd" and x[2] == "CloseConnection(Client)" for x in log)
    server_closed_by_proxy = any(x[0] == "cmd" and x[2] == "CloseConnection(Server)" for x in log)
    d.teardown()
    for e in d.exceptions:
        ctx.seen("layer_exceptions", f"{e[0]}@{e[1]}")
    ctx.seen("hook_sequences", ",".join(h["name"] for h in hooklog)[:200])

    # ---- what was delivered from the client, and when (driver log + the known layout of the stream)
    delivered = []  # (step, octets or datagrams delivered so far, segment index)
    acc = 0
    for x in log:
        if x[0] == "ev" and x[2].startswith("DataReceived(Client,"):
            acc += int(x[2][len("DataReceived(Client,"):-1]) if transport == "tcp" else 1
            delivered.append((x[1], acc, len(delivered)))
    delivered_queries = []  # (step, query, segment index)
    first_malformed = None
    for e, need in zip(elements, spans):
        hit = next(((s, si) for s, a, si in delivered if a >= need), None)
        if hit is None:
            break
        if e[0] == "msg":
            delivered_queries.append((hit[0], e[1], hit[1]))
        else:
            first_malformed = (e[0], hit[0], hit[1])
            break
    unknown_ids = state["unknown_ids"]
    upstream_ended = any(a in UP_RARE for a in up_plan.values())  # close / malformed from upstream puts the layer into its final state
    ended = client_eof or client_closed_by_proxy or upstream_ended or first_malformed is not None
    wit = {"transport": transport, "schedule": sched, "queries": [(q["id"], q["k"]) for q in qs],
           "client_segments": [bytes(s[0] if isinstance(s, tuple) else s)[:60] for s in segs][:12],
           "client_seg": cseg, "upstream_seg": useg, "up_plan": up_plan, "addon_plan": addon_plan, "refused_connect": refused, "client_eof": client_eof,
           "early": early, "malformed": first_malformed, "hooks": [(h["step"], h["name"], h["req_id"], h["qname"], h["resp_id"]) for h in hooklog][:40],
           "exceptions": [e[:2] for e in d.exceptions]}
    up_sent_sem = [R.semantic(R.decode(m)) for p in ups for m in p.sent]
    up_unconsumed = list(up_sent_sem)
    # does the workload reach "an unsolicited reply completes in the same TCP segment as an earlier solicited one"?
    if transport == "tcp":
        for p in ups:
            frames, _, _ = G.split_frames(bytes(p.sent_stream))
            bounds, acc_ = [], 0
            for sg in p.segments:
                acc_ += len(sg)
                bounds.append(acc_)
            end, seg_of, kinds = 0, [], []
            for fr in frames:
                end += 2 + len(fr)
                seg_of.append(next((i for i, b in enumerate(bounds) if b >= end), None))
                kinds.append("unsol" if fr[-4:-2] == b"\x0a\xc8" else "sol")
            if any(kinds[i] == "unsol" and any(kinds[j] == "sol" and seg_of[j] == seg_of[i] for j in range(i)) for i in range(len(frames))):
                ctx.count("coalesced.unsolicited_after_solicited")
                anomalies.add("coalesced-unsol")
                break
    outcomes = set()

    def queries_before(step):
        return [q for s, q, _ in delivered_queries if s <= step]

    # ---- hook.request
    seen_obj = set()
    for h in hooklog:
        ctx.count("hook.request")
        info = {"id": h["resp_id"] if h["resp_id"] is not None else h["req_id"], "unknown_ids": unknown_ids}
        if h["name"] == "dns_response" and h["resp_obj"] is not None:
            if h["resp_obj"] in seen_obj:
                ctx.count("observed.stale_response_replayed")
            seen_obj.add(h["resp_obj"])
        if h["resp_wire"] is not None:
            ctx.count("unsolicited.silent")
            try:
                hsem = R.semantic(R.decode(h["resp_wire"]))
                hrd = hsem["answers"][0]["rdata"] if hsem["answers"] else b""
            except R.DecodeError:
                hrd = b""
            if len(hrd) == 4 and hrd[:2] == b"\x0a\xc8":
                outcomes.add("unsolicited-reported")
                ctx.violation("unsolicited-upstream-reply-reported-to-addons", {**wit, "hook": h["name"], "step": h["step"], "req_id": h["req_id"], "response_id": h["resp_id"]},
                              classify("hook-flow-without-request", info) if not h["has_request"] else None)
        if not h["has_request"]:
            outcomes.add("hook-without-request")
            ctx.violation("hook-flow-without-request", {**wit, "hook": h["name"], "step": h["step"], "response_id": h["resp_id"]},
                          classify("hook-flow-without-request", info))
            continue
        if h["req_id"] not in {q["id"] for q in queries_before(h["step"])}:
            ctx.violation("hook-request-id-not-a-client-query", {**wit, "hook": h["name"], "step": h["step"], "req_id": h["req_id"]},
                          classify("hook-request-id-not-a-client-query", info))
        if h["resp_id"] is not None and h["resp_id"] != h["req_id"]:
            ctx.violation("hook-response-id-differs-from-request-id", {**wit, "hook": h["name"], "step": h["step"], "req_id": h["req_id"], "resp_id": h["resp_id"]})

    # ---- replies on the client wire
    per_send = []
    for s, conn, data in out_log:
        if conn is not d.client:
            continue
        if transport == "tcp":
            ms, st, rest = G.split_frames(bytes(data))
            if st != "ok" or rest or len(ms) != 1:
                ctx.violation("client-send-is-not-one-framed-message", {**wit, "data": bytes(data)[:200]})
                continue
            per_send.append((s, ms[0]))
        else:
            per_send.append((s, bytes(data)))
    err_budget = {}
    for h in hooklog:
        if h["name"] == "dns_error" and h["has_request"]:
            err_budget[h["req_id"]] = err_budget.get(h["req_id"], 0) + 1
    synthesized = {}
    for s, m in per_send:
        ctx.count("reply.matches")
        try:
            dec = R.decode(m, allow_trailing=False)
        except R.DecodeError as e:
            outcomes.add("undecodable")
            ctx.violation("reply-not-decodable", {**wit, "reply": m[:300], "error": str(e)})
            continue
        sem = R.semantic(dec)
        cands = [q for q in queries_before(s) if q["id"] == dec["id"]]
        info = {"id": dec["id"], "unknown_ids": unknown_ids}
        ctx.count("unsolicited.silent")
        rd0 = dec["answers"][0]["rdata"] if dec["answers"] else b""
        if len(rd0) == 4 and rd0[:2] == b"\x0a\xc8":
            outcomes.add("unsolicited-forwarded")
            ctx.violation("unsolicited-upstream-reply-forwarded-to-client", {**wit, "reply": m[:300], "step": s, "reply_id": dec["id"]})
        if not cands:
            outcomes.add("reply-unknown-id")
            ctx.violation("reply-id-not-a-client-query", {**wit, "reply": m[:300], "step": s, "reply_id": dec["id"]}, classify("reply-id-not-a-client-query", info))
            continue
        qmatch = [q for q in cands if q["sem"]["questions"] == sem["questions"]]
        if not qmatch:
            outcomes.add("reply-question-differs")
            ctx.violation("reply-question-differs", {**wit, "reply": m[:300], "step": s, "reply_id": dec["id"], "reply_questions": sem["questions"]},
                          classify("reply-question-differs", info))
            continue
        rd = dec["answers"][0]["rdata"] if dec["answers"] else b""
        if len(rd) == 4 and rd[0] == 10:
            ctx.count("reply.forwarded")
            if sem not in up_sent_sem:
                outcomes.add("forwarded-differs")
                ctx.violation("forwarded-reply-is-not-an-upstream-message", {**wit, "reply": m[:300]})
            elif sem not in up_unconsumed:
                # message for message: the upstream sent this reply fewer times than the client received it, i.e. the proxy itself
                # produced the extra copy (and the query that triggered it was not forwarded)
                outcomes.add("forwarded-extra-copy")
                reused = sum(1 for q in queries_before(s) if q["id"] == dec["id"]) >= 2
                ctx.violation("reply-sent-more-often-than-the-upstream-sent-it", {**wit, "reply": m[:300], "step": s, "reply_id": dec["id"]},
                              STALE_REPLAY if reused else None)
            else:
                up_unconsumed.remove(sem)
                outcomes.add("forwarded")
        elif len(rd) == 4 and rd[:3] == b"\x7f\x00\x00":
            outcomes.add("addon-response")
            if rd[3] >= len(qs) or qs[rd[3]] not in qmatch or not dec["qr"]:
                ctx.violation("addon-response-does-not-answer-its-query", {**wit, "reply": m[:300], "k": rd[3]})
        else:
            ctx.count("servfail")
            outcomes.add("servfail")
            ok = [q for q in qmatch if dec["qr"] and dec["rcode"] == SERVFAIL and dec["opcode"] == q["sem"]["opcode"] and dec["rd"] == q["sem"]["rd"]]
            if not ok:
                ctx.violation("servfail-not-matching-query", {**wit, "reply": m[:300], "decoded": {k: sem[k] for k in ("id", "qr", "opcode", "rd", "rcode")},
                                                               "query": {k: qmatch[0]["sem"][k] for k in ("id", "opcode", "rd")}})
            synthesized[dec["id"]] = synthesized.get(dec["id"], 0) + 1
    for mid, c in synthesized.items():
        if c > err_budget.get(mid, 0):
            ctx.violation("synthesised-reply-without-error-hook", {**wit, "id": mid, "replies": c, "error_hooks": err_budget.get(mid, 0)})
    if not client_eof and not client_closed_by_proxy:
        for mid, c in err_budget.items():
            if synthesized.get(mid, 0) < c:
                ctx.violation("error-hook-without-servfail", {**wit, "id": mid, "replies": synthesized.get(mid, 0), "error_hooks": c})
                break

    # ---- extract.client
    ctx.count("extract.client")
    expected = [(q["id"], q["text"]) for _, q, _ in delivered_queries]
    observed = [(h["req_id"], h["qname"]) for h in hooklog if h["name"] == "dns_request"]
    if observed == expected:
        outcomes.add("client-extraction-ok")
    else:
        is_prefix = observed == expected[: len(observed)]
        if not (is_prefix and (upstream_ended or client_eof)):
            info = {}
            if is_prefix and first_malformed is not None and transport == "tcp":
                info["missing_share_segment_with_malformed"] = all(si == first_malformed[2] for _, _, si in delivered_queries[len(observed):])
            outcomes.add("client-extraction-differs")
            ctx.violation("client-extraction-differs", {**wit, "expected": expected, "observed": observed}, classify("client-extraction-differs", info))

    # ---- extract.upstream (solicited answers only: 10.<k>.x.y with k != 200)
    ctx.count("extract.upstream")

    def solicited(sem):
        rd = sem["answers"][0]["rdata"] if sem["answers"] else b""
        return len(rd) == 4 and rd[0] == 10 and rd[1] != 200

    seen_obj = set()
    obs_up = []
    for h in hooklog:
        if h["name"] != "dns_response" or h["resp_obj"] is None or h["resp_obj"] in seen_obj:
            continue
        seen_obj.add(h["resp_obj"])
        try:
            sem = R.semantic(R.decode(h["resp_wire"]))
        except R.DecodeError:
            continue
        if solicited(sem):
            obs_up.append(sem)
    exp_up = [s for s in up_sent_sem if solicited(s)]
    if obs_up == exp_up:
        outcomes.add("upstream-extraction-ok")
    elif not (obs_up == exp_up[: len(obs_up)] and ended):
        outcomes.add("upstream-extraction-differs")
        ctx.violation("upstream-extraction-differs", {**wit, "expected": [(x["id"], x["answers"][0]["rdata"]) for x in exp_up],
                                                      "observed": [(x["id"], x["answers"][0]["rdata"]) for x in obs_up]})

    # ---- malformed.closes
    if first_malformed is not None:
        outcomes.add("client-malformed")
        if not client_eof and not upstream_ended:
            ctx.count("malformed.closes")
            if not client_closed_by_proxy:
                ctx.violation("malformed-client-message-does-not-close", wit)
    if state["bad_sent"] and not client_eof and first_malformed is None and not any("close" == a for a in up_plan.values()):
        ctx.count("malformed.closes")
        outcomes.add("upstream-malformed")
        if not server_closed_by_proxy:
            ctx.violation("malformed-upstream-message-does-not-close", wit)

    sig = (transport, cseg, useg, tuple(sorted(anomalies)), tuple(sorted(outcomes)), min(n, 3))
    nontrivial = n >= 2 or bool(anomalies)
    sample = {"transport": transport, "queries": [(q["id"], q["k"]) for q in qs], "up_plan": up_plan, "addon_plan": addon_plan, "client_seg": cseg,
              "hooks": [(h["name"], h["req_id"]) for h in hooklog][:20], "outcomes": sorted(outcomes)}
    return sig, nontrivial, sample


BULK_SEGS = [("chunk", 65535), "whole", ("chunk", 65536), ("chunk", 65537), ("chunk", 65538), ("chunk", 16384), ("chunk", 997), "random"]


def txt_rdata(n, fill):
    """TXT RDATA of exactly n octets (<character-string>s of up to 255 octets)."""
    out = bytearray()
    while n - len(out) >= 256:
        out += b"\xff" + fill * 255
    rest = n - len(out)
    if rest:
        out += bytes([rest - 1]) + fill * (rest - 1)
    return bytes(out)


def run_bulk_case(ctx, opts, index):
    """Heavy pipelining over TCP: well-formed traffic only, so every query must be extracted, forwarded and answered, identically
    for every segmentation, and nothing may be closed."""
    r = ctx.rng
    n = r.randint(100, 300)
    ids = r.sample(range(65536), n)
    cseg = BULK_SEGS[(index + ctx.worker) % len(BULK_SEGS)]
    useg = BULK_SEGS[(index // 2 + 3 * ctx.worker + r.randrange(2)) % len(BULK_SEGS)]
    queries, replies = [], {}
    big_q = r.randrange(n) if r.random() < 0.5 else None
    big_r = set(r.sample(range(n), r.choice([1, 2])))
    for k, mid in enumerate(ids):
        name = qname(k)
        pad = 65535 - 12 - (len(R.name_wire(name)) + 4) - 11 - 4 if k == big_q else r.choice([300, 400, 700, 1200])
        opt = {"name": (), "type": R.OPT, "class": 4096, "ttl": 0, "rdata": b"\x00\x0c" + pad.to_bytes(2, "big") + bytes(pad)}  # EDNS padding
        q = {"id": mid, "qr": False, "rd": True, "questions": [{"name": name, "type": 16, "class": 1}], "answers": [], "authorities": [], "additionals": [opt]}
        qw = R.encode(q)
        base = 12 + len(R.name_wire(name)) + 4 + len(R.name_wire(name)) + 10
        rdlen = 65535 - base if k in big_r else r.choice([40, 200, 600, 900])
        rep_ = {"id": mid, "qr": True, "rd": True, "ra": True, "questions": q["questions"],
                "answers": [{"name": name, "type": 16, "class": 1, "ttl": 60, "rdata": txt_rdata(rdlen, b"%c" % (97 + k % 26))}], "authorities": [], "additionals": []}
        rw = R.encode(rep_)
        assert len(qw) <= 65535 and len(rw) <= 65535, (len(qw), len(rw))
        queries.append((mid, qw))
        replies[mid] = rw
    stream = b"".join(G.frame(qw, "tcp") for _, qw in queries)
    up_total = sum(len(x) + 2 for x in replies.values())
    seen = []

    def responder(_k, m, peer):
        seen.append(int.from_bytes(m[:2], "big"))
        if len(seen) < n:
            return []
        return [replies[mid] for mid in seen if mid in replies]  # everything at once: one chunk, cut into ``useg`` segments

    ups = []

    def server_factory(drv, conn):
        p = G.DnsUpstream("tcp", responder, r, useg, coalesce=True)
        ups.append(p)
        return p

    hook_ids = {"dns_request": [], "dns_response": [], "dns_error": []}

    def policy(drv, hook):
        req = getattr(hook.flow, "request", None)
        hook_ids[hook.name].append(req.id if req is not None else None)

    d = G.make_driver("tcp", opts, r, server_factory=server_factory, schedule=r.choice(["random", "fifo"]), policy=policy, max_steps=40 * n + 4000)
    if isinstance(cseg, tuple):
        segs = [stream[i : i + cseg[1]] for i in range(0, len(stream), cseg[1])]
    else:
        segs = cut(stream, r, cseg)
    d.attach_client_peer(sansio.ScriptPeer(segs))
    d.start()
    d.run()
    if d.budget_exceeded:
        d.teardown()
        ctx.count("inconclusive_cases")
        return None
    closes = [x[2] for x in d.log if x[0] == "cmd" and x[2].startswith("CloseConnection")]
    down, status, rest = G.client_messages(d, "tcp")
    d.teardown()
    ctx.count("bulk.cases")
    if max(len(x) for x in segs) >= 65535 or any(len(x) >= 65535 for p in ups for x in p.segments):
        ctx.count("bulk.segment_ge_65535")
    wit = {"kind": "bulk", "queries": n, "client_octets": len(stream), "upstream_octets": up_total, "client_seg": cseg, "upstream_seg": useg,
           "largest_client_segment": max(len(x) for x in segs), "largest_upstream_segment": max([len(x) for p in ups for x in p.segments] or [0]),
           "closes": closes, "exceptions": [e[:2] for e in d.exceptions], "dns_request_hooks": len(hook_ids["dns_request"]),
           "dns_response_hooks": len(hook_ids["dns_response"]), "replies_to_client": len(down)}
    bad = []
    if closes:
        bad.append("connection-closed-on-well-formed-traffic")
    if hook_ids["dns_request"] != ids:
        bad.append("client-extraction-differs")
    if seen != ids:
        bad.append("queries-forwarded-differ")
    if status != "ok" or rest:
        bad.append("client-bound-framing-broken")
    got = {}
    for m in down:
        got.setdefault(int.from_bytes(m[:2], "big"), []).append(m)
    ctx.count("bulk.replies_checked", len(down))
    wrong = [mid for mid in ids if len(got.get(mid, [])) != 1 or R.semantic(R.decode(got[mid][0])) != R.semantic(R.decode(replies[mid]))]
    if wrong or set(got) - set(ids):
        bad.append("replies-differ")
        wit["first_wrong_ids"] = wrong[:5]
    if hook_ids["dns_error"] or d.exceptions:
        bad.append("error-on-well-formed-traffic")
    for b in bad:
        ctx.violation("bulk:" + b, wit)
    sig = ("bulk", str(cseg), str(useg), big_q is not None, tuple(bad))
    return sig, True, {k: wit[k] for k in ("kind", "queries", "client_octets", "upstream_octets", "client_seg", "upstream_seg", "replies_to_client")}


def run(ctx):
    tctx, _ = sansio.addon_context()
    opts = tctx.options
    for i in ctx.cases():
        if i < 4 or i % 3000 == 0:
            res = ctx.guard(run_bulk_case, ctx, opts, i, what="c27 bulk case")
        else:
            res = ctx.guard(run_case, ctx, opts, what="c27 case")
        if res is None:
            ctx.case(("aborted",), False)
            continue
        sig, nontrivial, sample = res
        ctx.case(sig, nontrivial, sample)
