"""C22 -- client connections from blocked address classes are refused (block_global / block_private).

Leg 1 (hook boundary, enumerated): the real ``Block.client_connected`` is called on real ``Client`` objects whose
peername is every boundary address (first/last/previous/next) of every block of the embedded IANA special-purpose
registries (vf/ref/c22_iana.py), in every notation a socket can report (plain, IPv4-mapped dotted / hex, zone-scoped
``%eth0`` / ``%1``, expanded upper-case), under all four option settings and every proxy mode.  ``client.error``
after the hook is compared with the reference decision; only unambiguous classes decide (see the reference module).
Leg 2 (engine B): the real ``ConnectionHandler.handle_client`` is run in memory with the Block hook: when the hook
sets ``client.error`` the writer must be closed, nothing may be read from the client and no event (not even Start)
may reach the layer; otherwise the layer must see Start.
Random addresses (uniform, near boundaries, inside blocks) extend both legs.
Leg 3 (option histories): a fresh real ``Block`` addon registered with the addon manager of a ``taddons.context`` goes
through multi-step histories of *separate* option updates (block_global alone, block_private alone, both in one update,
redundant updates, ``--set`` style specs, attribute assignment, reset), the ``configure`` hook being delivered by the
real OptManager/AddonManager with exactly the updated keys.  After every step a sweep of source addresses of every class
and notation is judged by the same oracle against the CURRENT option values.  All histories of up to 3 steps over the 8
update kinds are enumerated in both tiers; longer random ones follow.
"""
import asyncio
import logging

from mitmproxy import ctx as mitmproxy_ctx
from mitmproxy.addons import block
from mitmproxy.connection import Client
from mitmproxy.connection import ConnectionState
from mitmproxy.proxy import commands
from mitmproxy.proxy import events
from mitmproxy.proxy import layer
from mitmproxy.proxy import mode_specs
from mitmproxy.proxy import server
from mitmproxy.test import taddons
from vf.ref import c22_iana as ref

PROPERTY = "C22"
LEVEL = "exploration"
ENGINE = "direct"
TECHNIQUE = "boundary enumeration of the IANA special-purpose registries against an independent classifier"
BUDGET = {"quick": (4_500, 14), "thorough": (400_000, 150)}
WORKERS = {"quick": 2, "thorough": 16}
REQUIRED = ["hook.loopback_not_refused", "hook.localmode_not_refused", "hook.global_decided", "hook.private_decided",
            "hook.off_not_refused", "hook.refused_some", "handler.refused_closed_before_start", "handler.accepted_started",
            "history.steps", "history.private_decided", "history.global_decided", "history.off_not_refused", "history.refused_some"]
RULE = (
    "case = (source address, notation, block_global, block_private, proxy mode); every registry block contributes its "
    "first/last/previous/next address (plus IPv4-mapped twins) in 4-5 notations x 4 option settings x 13 modes (split over "
    "workers, fully enumerated in both tiers), then random addresses (uniform v4/v6, inside 2000::/3, inside/adjacent to "
    "registry blocks); option histories: every sequence of <=3 separate updates over {block_global=T/F, block_private=T/F, both "
    "in one update (4 value pairs)} on a fresh addon (584 histories, split over workers) plus random histories of 4-8 steps using "
    "update / --set spec / attribute assignment / reset, each step followed by a sweep of 15 source addresses x 3 modes; "
    "distinct = distinct (registry block or 'outside', position, notation, options, mode type, leg) resp. (history of update "
    "kinds); "
    "non-trivial = at least one option is on and the reference decides the outcome (loopback / RFC1918+ULA / definitely "
    "global / local mode)"
)
ASSUMPTIONS = [
    "peernames have the forms sockets report: dotted IPv4; IPv6 text (any valid spelling) optionally followed by %zone",
    "blocks whose classification is debatable (shared space, documentation, benchmarking, link-local, multicast, reserved, "
    "6to4/NAT64/Teredo, IPv6 outside 2000::/3) only require totality and 'not refused when both options are off'",
]
LEVEL_TEXT = (
    "All boundary addresses of all registry blocks are enumerated in all notations, option settings and modes, so the "
    "classification at block edges is covered completely; the interior of blocks and of the global space is sampled. "
    "The handle_client leg confirms on the real connection handler that a refusal happens before any protocol processing."
)
LEVEL_NOTE = "Trusted: the embedded registry table (checked against RFC 6890 + IANA updates by hand) and socket.inet_ntop/pton for text conversion."

MODES = ["regular", "transparent", "socks5", "upstream:http://example.com:8080", "reverse:https://example.com",
         "reverse:dns://8.8.8.8", "reverse:quic://example.com", "dns", "wireguard", "tun", "local", "local:curl", "local:!curl"]
OPTS = [(False, False), (True, False), (False, True), (True, True)]
EXTRA_POINTS = [(4, "8.8.8.8"), (4, "1.1.1.1"), (4, "216.58.207.174"), (4, "172.20.0.1"), (4, "192.168.1.1"),
                (6, "2001:4860:4860::8888"), (6, "2a00:1450:4001:82b::200e"), (6, "fd12:3456:789a::1"), (6, "::7f00:1"), (6, "::808:808")]


def expanded(n: int) -> str:
    return ":".join(f"{(n >> (112 - 16 * i)) & 0xFFFF:04X}" for i in range(8))


def notations(ver, n):
    """[(notation name, text, reference (klass, block))]"""
    out = []
    if ver == 4:
        c = ref.classify4(n)
        t = ref.text4(n)
        m = ref.mapped(n)
        assert ref.classify6(m)[0] == c[0]
        out.append(("v4", t, c))
        out.append(("mapped", "::ffff:" + t, c))
        out.append(("mapped-hex", f"::ffff:{n >> 16:x}:{n & 0xFFFF:x}", c))
        out.append(("mapped%eth0", "::ffff:" + t + "%eth0", c))
        out.append(("mapped%1", "::ffff:" + t + "%1", c))
    else:
        c = ref.classify6(n)
        t = ref.text6(n)
        out.append(("v6", t, c))
        out.append(("v6%eth0", t + "%eth0", c))
        out.append(("v6%1", t + "%1", c))
        out.append(("v6-expanded", expanded(n), c))
    return out


def expected(klass, is_local, bg, bp):
    """True = must be refused, False = must not be refused, None = undecided."""
    if is_local or klass == ref.LOOPBACK:
        return False
    if not bg and not bp:
        return False
    if klass == ref.PRIVATE:
        return bp
    if klass == ref.GLOBAL:
        return bg
    return None


def classify(klass, blockname, notation, is_local, bg, bp, refused):
    """Mechanism from the input only. The unchanged tree has no known C22 mechanism, so every disagreement with the
    reference is an unclassified violation."""
    return None


class World:
    def __init__(self):
        self.ar = block.Block()
        self.cm = taddons.context(self.ar)
        self.tctx = self.cm.__enter__()
        self.cur = None
        self.modes = {m: mode_specs.ProxyMode.parse(m) for m in MODES}

    def set(self, bg, bp):
        if self.cur != (bg, bp):
            self.tctx.configure(self.ar, block_global=bg, block_private=bp)
            self.cur = (bg, bp)

    def close(self):
        self.cm.__exit__(None, None, None)


def hook_eval(ctx, w, text, ver_is6, klass, blockname, notation, mode, bg, bp):
    w.set(bg, bp)
    peer = (text, 51234, 0, 0) if ver_is6 else (text, 51234)
    client = Client(peername=peer, sockname=("192.0.2.99", 8080), timestamp_start=1.0, state=ConnectionState.OPEN,
                    proxy_mode=w.modes[mode])
    wit = {"peername": text, "mode": mode, "block_global": bg, "block_private": bp, "ref_class": klass, "ref_block": blockname}
    try:
        w.ar.client_connected(client)
    except Exception as e:
        ctx.count("hook.total")
        ctx.violation("hook-raises", {**wit, "exc": repr(e)})
        return None
    ctx.count("hook.total")
    refused = bool(client.error)
    is_local = mode.startswith("local")
    exp = expected(klass, is_local, bg, bp)
    if refused:
        ctx.count("hook.refused_some")
    if is_local:
        ctx.count("hook.localmode_not_refused")
    elif klass == ref.LOOPBACK:
        ctx.count("hook.loopback_not_refused")
    elif not bg and not bp:
        ctx.count("hook.off_not_refused")
    elif klass == ref.GLOBAL:
        ctx.count("hook.global_decided")
    elif klass == ref.PRIVATE:
        ctx.count("hook.private_decided")
    else:
        ctx.count("hook.debatable_total_only")
    if exp is not None and refused != exp:
        kind = "not-refused" if exp else "refused-wrongly"
        ctx.violation(f"hook:{kind}:{klass}", {**wit, "client_error": client.error},
                      mechanism=classify(klass, blockname, notation, is_local, bg, bp, refused))
    return refused


# ---- leg 3: option histories ----------------------------------------------------------------------------------------

STEP_KINDS = [("bg", True), ("bg", False), ("bp", True), ("bp", False),
              ("both", (True, True)), ("both", (True, False)), ("both", (False, True)), ("both", (False, False))]
HIST_SOURCES = [(4, "8.8.8.8"), (4, "1.1.1.1"), (6, "2001:4860:4860::8888"), (4, "10.0.0.1"), (4, "172.20.0.1"), (4, "192.168.1.1"),
                (6, "fd12:3456:789a::1"), (4, "127.0.0.1"), (6, "::1"), (4, "169.254.1.1"), (6, "fe80::1"), (4, "100.64.0.1")]
HIST_MODES = ["regular", "reverse:https://example.com", "local"]


def hist_sources():
    """[(text, is6, klass, block name, notation)] : plain + mapped + scoped forms of HIST_SOURCES"""
    out = []
    for ver, t in HIST_SOURCES:
        n = ref._p4(t) if ver == 4 else ref._p6(t)
        nots = notations(ver, n)
        keep = {"v4", "mapped", "mapped%eth0"} if ver == 4 else {"v6", "v6%eth0"}
        for notation, text, (klass, bname) in nots:
            if notation in keep and (notation in ("v4", "v6") or t in ("8.8.8.8", "192.168.1.1", "127.0.0.1", "fd12:3456:789a::1")):
                out.append((text, notation != "v4", klass, bname, notation))
    return out


def run_option_history(ctx, w_modes, sources, steps, routes):
    """steps: [(kind, value)], routes: per step 'update' | 'set-spec' | 'setattr' ; -> signature outcome"""
    ar = block.Block()
    with taddons.context(ar) as tctx:
        opts = tctx.options
        cur = {"block_global": True, "block_private": False}  # documented defaults
        if (opts.block_global, opts.block_private) != (True, False):
            ctx.violation("history:defaults-differ", {"block_global": opts.block_global, "block_private": opts.block_private})
        log = []
        for (kind, val), route in zip(steps, routes):
            if kind == "reset":
                opts.reset()
                cur = {"block_global": True, "block_private": False}
            else:
                upd = {"block_global": val} if kind == "bg" else {"block_private": val} if kind == "bp" else \
                    {"block_global": val[0], "block_private": val[1]}
                if route == "set-spec":  # what --set / the console :set command do
                    opts.set(*[f"{k}={'true' if v else 'false'}" for k, v in upd.items()])
                elif route == "setattr":
                    for k, v in upd.items():
                        setattr(opts, k, v)
                else:
                    opts.update(**upd)
                cur.update(upd)
            log.append((kind, val, route))
            bg, bp = cur["block_global"], cur["block_private"]
            if (opts.block_global, opts.block_private) != (bg, bp):
                ctx.violation("history:option-values-differ", {"history": log, "expected": cur, "block_global": opts.block_global,
                                                                "block_private": opts.block_private})
                return "options-differ"
            ctx.count("history.steps")
            for text, is6, klass, bname, notation in sources:
                for mode in HIST_MODES:
                    peer = (text, 51234, 0, 0) if is6 else (text, 51234)
                    client = Client(peername=peer, sockname=("192.0.2.99", 8080), timestamp_start=1.0, state=ConnectionState.OPEN,
                                    proxy_mode=w_modes[mode])
                    wit = {"peername": text, "mode": mode, "block_global": bg, "block_private": bp, "ref_class": klass,
                           "option_history": [list(x) for x in log]}
                    try:
                        ar.client_connected(client)
                    except Exception as e:
                        ctx.violation("history:hook-raises", {**wit, "exc": repr(e)})
                        continue
                    refused = bool(client.error)
                    exp = expected(klass, mode.startswith("local"), bg, bp)
                    if refused:
                        ctx.count("history.refused_some")
                    if not mode.startswith("local") and klass != ref.LOOPBACK:
                        if not bg and not bp:
                            ctx.count("history.off_not_refused")
                        elif klass == ref.PRIVATE:
                            ctx.count("history.private_decided")
                        elif klass == ref.GLOBAL:
                            ctx.count("history.global_decided")
                    if exp is not None and refused != exp:
                        ctx.violation(f"history:{'not-refused' if exp else 'refused-wrongly'}:{klass}", {**wit, "client_error": client.error})
    return "ok"


# ---- leg 2: real handle_client -----------------------------------------------------------------------------------

class Probe(layer.Layer):
    def __init__(self, context, log):
        super().__init__(context)
        self.log = log

    def _handle_event(self, ev):
        self.log.append(type(ev).__name__)
        if isinstance(ev, events.ConnectionClosed):
            yield commands.CloseConnection(ev.connection)


class FakeWriter:
    def __init__(self, peer):
        self.peer = peer
        self.closed = False
        self.written = b""

    def get_extra_info(self, k, d=None):
        return {"peername": self.peer, "sockname": ("192.0.2.99", 8080)}.get(k, d)

    def write(self, b):
        self.written += b

    async def drain(self):
        pass

    def close(self):
        self.closed = True

    def is_closing(self):
        return self.closed

    def write_eof(self):
        pass

    def can_write_eof(self):
        return True

    async def wait_closed(self):
        pass


class FakeReader:
    def __init__(self):
        self.reads = 0
        self.chunks = [b"GET / HTTP/1.1\r\nHost: example.com\r\n\r\n"]

    async def read(self, n):
        self.reads += 1
        return self.chunks.pop(0) if self.chunks else b""


async def handler_run(w, peer, mode):
    wr, rd, log = FakeWriter(peer), FakeReader(), []
    hooks = []

    def cc(client):
        hooks.append("client_connected")
        w.ar.client_connected(client)

    h = server.SimpleConnectionHandler(rd, wr, w.tctx.options, w.modes[mode],
                                       {"client_connected": cc, "client_disconnected": lambda c: hooks.append("client_disconnected")})
    h.layer = Probe(h.layer.context, log)
    await asyncio.wait_for(h.handle_client(), 10)
    return h.client, wr, rd, log, hooks


def handler_eval(ctx, loop, w, text, ver_is6, klass, blockname, mode, bg, bp):
    w.set(bg, bp)
    peer = (text, 51234, 0, 0) if ver_is6 else (text, 51234)
    wit = {"peername": text, "mode": mode, "block_global": bg, "block_private": bp, "ref_class": klass, "ref_block": blockname}
    try:
        client, wr, rd, log, hooks = loop.run_until_complete(handler_run(w, peer, mode))
    except asyncio.TimeoutError:
        ctx.count("inconclusive_cases")
        return
    except Exception as e:
        ctx.violation("handler-raises", {**wit, "exc": repr(e)})
        return
    refused = bool(client.error)
    exp = expected(klass, mode.startswith("local"), bg, bp)
    ctx.count("handler.total")
    if exp is not None and refused != exp:
        ctx.violation(f"handler:{'not-refused' if exp else 'refused-wrongly'}:{klass}", {**wit, "client_error": client.error})
    if refused:
        ctx.count("handler.refused_closed_before_start")
        if log or rd.reads or not wr.closed or wr.written or hooks != ["client_connected", "client_disconnected"]:
            ctx.violation("handler:refused-but-processed", {**wit, "layer_events": log, "reads": rd.reads, "closed": wr.closed,
                                                             "written": wr.written, "hooks": hooks})
    else:
        ctx.count("handler.accepted_started")
        if log[:1] != ["Start"] or hooks[:1] != ["client_connected"]:
            ctx.violation("handler:accepted-but-not-started", {**wit, "layer_events": log, "hooks": hooks})
    ctx.seen("handler_event_sequences", ("refused" if refused else "accepted", tuple(log)))


def random_point(r):
    """-> (ver, int, how)"""
    k = r.random()
    if k < 0.2:
        return 4, r.getrandbits(32), "uniform"
    if k < 0.35:
        return 6, (0b001 << 125) | r.getrandbits(125), "gua"
    if k < 0.45:
        return 6, r.getrandbits(128), "uniform"
    ver = 4 if r.random() < 0.5 else 6
    blocks, bits = (ref.V4_BLOCKS, 32) if ver == 4 else (ref.V6_BLOCKS, 128)
    base, mask, ln, klass, name, _ = r.choice(blocks)
    top = (1 << bits) - 1
    if r.random() < 0.6:
        return ver, base | (r.getrandbits(bits) & ~mask & top), "inside"
    # near the edges (within 2^k of them)
    d = r.getrandbits(r.choice([1, 4, 8, 12, 16]))
    last = base | (~mask & top)
    v = r.choice([base - 1 - d, last + 1 + d, base + d, last - d])
    return ver, min(max(v, 0), top), "near"


def run(ctx):
    logging.disable(logging.CRITICAL)  # the addon logs a warning per refusal
    w = World()
    loop = asyncio.new_event_loop()
    try:
        pts = ref.boundary_points()
        for ver, s in EXTRA_POINTS:
            pts.append((ver, ref._p4(s) if ver == 4 else ref._p6(s), "extra", "fixed"))
        # enumerated leg: item k -> worker k % nworkers
        items = []
        for ver, n, name, pos in pts:
            for notation, text, (klass, bname) in notations(ver, n):
                items.append((ver, n, name, pos, notation, text, klass, bname))
        n_enum = len(items)
        import itertools
        histories = [h for n in (1, 2, 3) for h in itertools.product(range(len(STEP_KINDS)), repeat=n)]
        n_hist = len(histories)
        sources = hist_sources()
        p_rand_hist = 0.01
        for i in ctx.cases(n=n_enum + n_hist + ctx.n_cases):
            r = ctx.rng
            hist = None
            if n_enum <= i < n_enum + n_hist:
                if i % ctx.nworkers != ctx.worker and ctx.only_case is None:
                    continue
                steps = [STEP_KINDS[k] for k in histories[i - n_enum]]
                hist = (steps, [r.choice(["update", "update", "set-spec", "setattr"]) for _ in steps])
            elif i >= n_enum + n_hist and r.random() < p_rand_hist:
                steps = [r.choice(STEP_KINDS + [("reset", None)]) for _ in range(r.randint(4, 8))]
                hist = (steps, [r.choice(["update", "set-spec", "setattr"]) for _ in steps])
            if hist is not None:
                steps, routes = hist
                try:
                    outcome = run_option_history(ctx, w.modes, sources, steps, routes)
                finally:
                    # a Master installs itself into the global mitmproxy.ctx; hand it back to the long-lived world
                    mitmproxy_ctx.master = w.tctx.master
                    mitmproxy_ctx.options = w.tctx.options
                ctx.case(("opt-history", tuple(steps), outcome if len(steps) <= 3 else ""), nontrivial=len(steps) >= 2,
                         sample={"leg": "option-history", "steps": [list(x) for x in steps], "routes": routes, "outcome": outcome}
                         if i % 101 == 5 else None)
                continue
            if i < n_enum:
                if i % ctx.nworkers != ctx.worker and ctx.only_case is None:
                    continue
                ver, n, name, pos, notation, text, klass, bname = items[i]
                is6 = notation != "v4"
                any_refused = False
                for bg, bp in OPTS:
                    for mode in MODES:
                        refd = hook_eval(ctx, w, text, is6, klass, bname, notation, mode, bg, bp)
                        any_refused = any_refused or bool(refd)
                        mt = mode.split(":")[0]
                        ctx.case(("enum", name, pos, notation, bg, bp, mt),
                                 nontrivial=(bg or bp) and expected(klass, mt == "local", bg, bp) is not None,
                                 sample={"peername": text, "mode": mode, "block_global": bg, "block_private": bp, "ref_class": klass,
                                         "ref_block": bname, "refused": refd} if (i % 211 == 7 and bg and mode == "socks5") else None)
                # one real handle_client run per enumerated item, options/mode picked by the case rng
                bg, bp = r.choice(OPTS[1:])
                mode = r.choice(MODES)
                handler_eval(ctx, loop, w, text, is6, klass, bname, mode, bg, bp)
                continue
            ver, n, how = random_point(r)
            nots = notations(ver, n)
            notation, text, (klass, bname) = r.choice(nots)
            is6 = notation != "v4"
            bg, bp = r.choice(OPTS)
            mode = r.choice(MODES)
            mt = mode.split(":")[0]
            refd = hook_eval(ctx, w, text, is6, klass, bname, notation, mode, bg, bp)
            if r.random() < 0.25:
                handler_eval(ctx, loop, w, text, is6, klass, bname, mode, bg, bp)
            ctx.case(("rnd", bname, how, notation, bg, bp, mt),
                     nontrivial=(bg or bp) and expected(klass, mt == "local", bg, bp) is not None,
                     sample={"peername": text, "mode": mode, "block_global": bg, "block_private": bp, "ref_class": klass,
                             "ref_block": bname, "refused": refd})
        ctx.extra["enumerated_boundary_items"] = n_enum
        ctx.extra["enumerated_option_histories"] = n_hist
        ctx.extra["registry_blocks"] = len(ref.V4_BLOCKS) + len(ref.V6_BLOCKS)
    finally:
        loop.close()
        w.close()
        logging.disable(logging.NOTSET)
