"""C35 -- header collections behave as a case-insensitive ordered multimap.

Lock-step shadow model (M1, histories): up to three real mitmproxy.http.Headers objects and their reference
models (vf/ref/c35_multimap.RefHeaders, a plain list of (name, value) bytes pairs) receive the same
operation; after every operation the return value (or the raised KeyError) and the ``fields`` tuple of every
object in the pool are compared.  Second monitor: bytes(headers) -> own CRLF line splitter ->
mitmproxy.net.http.http1.read._read_headers gives back the same fields for every valid field list (generated
ones and every valid state reached by a history).  Thorough tier only: worker 0 additionally runs the
repository's http tests with every Headers operation shadow-checked by the same model (vf/gen/c35_ambient.py).
"""
import signal

from mitmproxy.http import Headers
from mitmproxy.net.http.http1 import read as h1read

from vf.core import Inconclusive
from vf.ref import c35_multimap as ref

PROPERTY = "C35"
LEVEL = "exploration"
ENGINE = "direct"
TECHNIQUE = "lock-step shadow model over random operation histories; serialise/parse round trip"
BUDGET = {"quick": (6_000, 16), "thorough": (120_000, 200)}
WORKERS = {"quick": 2, "thorough": 16}
REQUIRED = ["op.result", "op.fields", "h1_roundtrip", "histories.with_near_equal_distinct_names", "eq.layout_of_repeated_name"]
RULE = (
    "case = a history of 1-40 operations ([] get/set/del, get, in, add, insert(i), get_all/set_all, pop, popitem, setdefault, "
    "update (pairs / other headers / kwargs), keys/values/items (multi and not), iteration, len, ==, copy, clear, construction "
    "with kwargs) on a pool of <=3 Headers objects over a per-history name universe = case family {A,a,Aa,aA,b,B} plus one family of names that are "
    "equal up to something other than ASCII case and must stay distinct (X-y/X_y/Xy; trailing/leading space, dot, tab; :a/a/a:; "
    "non-ASCII case pairs A-umlaut, sharp s/SS, Kelvin sign/k, dotted/dotless i, latin-1 and surrogate-escaped bytes) given as str or bytes and 10 small values "
    "(empty, commas, non-ASCII, non-UTF-8 bytes, padded), plus one generated valid field list (token names, field-content "
    "values) for the HTTP/1 round trip. distinct = (name family, whether an operation met a near-equal-but-distinct name, length class, set (<=3, else its size) of mutating operations that addressed a "
    "name held by >=2 fields or in another spelling, whether a reading operation did, whether a KeyError was raised, whether a "
    "round trip of a reached state happened); "
    "non-trivial = at least one mutating operation addressed a name present several times or in a different spelling, or an operation's "
    "name met a stored name that differs from it only by non-case characters"
)
ASSUMPTIONS = [
    "names are case-insensitive in the ASCII range only (HTTP field names are tokens)",
    "== is decided by the ordered field list: collections that differ in any value, in the order or in how the values of a repeated name are "
    "laid out (split over fields vs folded into one, interleaving) are unequal; only a difference confined to the letter case of names is "
    "left unjudged (the statement calls names case-insensitive but also says spelling is preserved; the code compares spelling)",
    "values()/items() without multi report the folded value m[name] per distinct name (Mapping contract)",
    "valid field = RFC 9110 token name and field-content value without leading/trailing whitespace",
]
LEVEL_TEXT = (
    "Random histories over a deliberately tiny name alphabet so that case variants and repeated names collide constantly; "
    "every return value and every resulting fields tuple is compared with the reference model. Histories are sampled, not enumerated."
)
LEVEL_NOTE = "Trusted: vf/ref/c35_multimap.py (150 lines, list based) and the statement-level reading documented in its docstring."

F_CASE = ["A", "a", "Aa", "aA", "b", "B"]
# names that are equal up to something OTHER than ASCII letter case -- they must stay distinct names
FAMILIES = {
    "plain": ["X-y"],
    "sep": ["X-y", "x-y", "X_y", "x_y", "X-Y", "X_Y", "Xy"],
    "edge": ["X-y", "x-y", "X-y ", " X-y", "X-y.", ".X-y", "X-y\t", "X--y"],
    "pseudo": [":a", ":A", "a:", ":a:", ":b", "::a"],
    "unicode": ["\u00c4", "\u00e4", "\u00df", "SS", "ss", "\u1e9e", "K", "k", "\u212a", "\u0130", "i", "I", "\u0131", "i\u0307", b"\xc4", b"\xe4", "\udcc4", "\udce4"],
}
CUR = {"names": F_CASE + ["X-y"], "family": "plain"}
NAMES = F_CASE + ["X-y"]  # default universe (documentation; the per-history universe is CUR["names"])


def choose_universe(r):
    """Per history: the case family plus one family of near-equal-but-distinct names, so that collisions stay frequent."""
    fam = r.choice(["plain", "plain", "sep", "sep", "edge", "pseudo", "unicode", "unicode"])
    base = F_CASE if fam == "plain" else r.sample(F_CASE, 3) + (["a", "A"] if fam == "pseudo" else [])
    CUR["names"], CUR["family"] = base + FAMILIES[fam], fam


def loose(name) -> str:
    """A deliberately too generous equivalence (what a wrong canonicalisation might do) -- used only to describe cases."""
    t = ref.to_s(ref.to_b(name)).casefold().replace("_", "-").strip(" .\t:")
    return t
VALUES = ["", "1", "2", "x, y", "é", "\udcff", b"\xff\xfe", "a b", " pad ", "v:w"]
MUTATORS = {"setitem", "delitem", "add", "insert", "set_all", "pop", "popitem", "setdefault", "update_pairs", "update_from", "update_kwargs", "clear"}

OPS = [
    ("getitem", 6), ("get", 3), ("contains", 3), ("setitem", 8), ("delitem", 6), ("add", 7), ("insert", 6),
    ("get_all", 4), ("set_all", 8), ("pop", 4), ("popitem", 2), ("setdefault", 4), ("update_pairs", 3),
    ("update_from", 2), ("update_kwargs", 2), ("keys", 2), ("values", 2), ("items", 3), ("iter", 3), ("len", 3),
    ("eq", 7), ("copy", 3), ("clear", 1), ("new_kwargs", 1), ("roundtrip", 2),
]
OP_NAMES = [o for o, _ in OPS]
OP_W = [w for _, w in OPS]


def gen_key(r):
    k = r.choice(CUR["names"])
    if isinstance(k, bytes):
        return k
    return ref.to_b(k) if r.random() < 0.2 else k


def gen_val(r):
    v = r.choice(VALUES)
    if isinstance(v, str) and r.random() < 0.2:
        return v.encode("utf-8", "surrogateescape")
    return v


def gen_fields(r, n):
    return [(ref.to_b(r.choice(CUR["names"])), ref.to_b(r.choice(VALUES))) for _ in range(n)]


TOK = "!#$%&'*+-.^_`|~019azAZ"
VCH = [b"a", b"Z", b"0", b" ", b"\t", b",", b";", b"=", b":", b'"', b"\\", b"(", b"\xc3\xa9", b"\xff", b"\x80", b"~", b"!"]


def gen_valid_fields(r):
    out = []
    for _ in range(r.choice([0, 1, 2, 3, 5, 9])):
        name = "".join(r.choice(TOK) for _ in range(r.choice([1, 1, 2, 5, 12]))).encode()
        if r.random() < 0.3 and out:
            name = r.choice(out)[0].swapcase() if r.random() < 0.5 else r.choice(out)[0]
        val = b"".join(r.choice(VCH) for _ in range(r.choice([0, 1, 2, 4, 10, 40])))
        val = val.strip(b" \t")
        out.append((name, val))
    return out


def layout_variant(r, m):
    """A collection with other fields than m but the same folded per-name view (m[name] for each name, in order):
    a repeated name folded into one field, a value containing ', ' split into two fields, a later occurrence of a
    repeated name moved next to / away from the first one. None if m offers none of these."""
    f = list(m.f)
    groups = {}
    for i, (n, _) in enumerate(f):
        groups.setdefault(ref.fold(n), []).append(i)
    rep = [ix for ix in groups.values() if len(ix) > 1]
    options = []
    if rep:
        options += ["fold", "move"]
    if any(b", " in v for _, v in f):
        options.append("split")
    if not options:
        return None
    how = r.choice(options)
    if how == "fold":
        ix = r.choice(rep)
        g = [(f[ix[0]][0], b", ".join(f[i][1] for i in ix)) if i == ix[0] else f[i] for i in range(len(f)) if i == ix[0] or i not in ix]
    elif how == "split":
        i = r.choice([i for i, (_, v) in enumerate(f) if b", " in v])
        a, b = f[i][1].split(b", ", 1)
        g = f[:i] + [(f[i][0], a), (f[i][0], b)] + f[i + 1 :]
    else:
        ix = r.choice(rep)
        j = r.choice(ix[1:])  # a later occurrence: move it directly behind the first one, or to the end
        item = f[j]
        g = f[:j] + f[j + 1 :]
        pos = ix[0] + 1 if r.random() < 0.5 and j != ix[0] + 1 else len(g)
        g.insert(pos, item)
    out = ref.RefHeaders(g)
    return out if out.f != m.f else None


def norm(x):
    """Make a real return value comparable: materialise iterators/views, tuples for pairs."""
    if x is None or isinstance(x, (str, bytes, bool, int)):
        return x
    if isinstance(x, tuple) and len(x) == 2 and all(isinstance(e, (str, bytes)) for e in x):
        return tuple(x)
    try:
        return [norm(e) for e in x]
    except TypeError:
        return x


def call(fn, *a, **kw):
    """-> ('ok', value) | ('KeyError',) ; anything else propagates (totality: reported by ctx.guard)."""
    try:
        return ("ok", norm(fn(*a, **kw)))
    except KeyError:
        return ("KeyError",)


def roundtrip(ctx, fields, origin):
    """bytes(Headers(fields)) -> lines -> _read_headers == fields, for a valid field list."""
    h = Headers(fields)
    block = bytes(h)
    ctx.count("h1_roundtrip")
    wit = {"fields": fields, "block": block, "origin": origin}
    if block and not block.endswith(b"\r\n"):
        ctx.violation("h1-block-not-crlf-terminated", wit)
        return
    lines = ref.split_lines(block)
    if len(lines) != len(fields):
        ctx.violation("h1-line-count", {**wit, "lines": lines})
        return
    try:
        back = h1read._read_headers(lines)
    except ValueError as e:
        ctx.violation("h1-parse-rejects-valid-fields", {**wit, "exc": repr(e)})
        return
    if tuple(back.fields) != tuple(fields):
        ctx.violation("h1-roundtrip-differs", {**wit, "back": back.fields})


def check_fields(ctx, pool, hist):
    for slot, (real, model) in enumerate(pool):
        ctx.count("op.fields")
        f = real.fields
        ok_type = isinstance(f, tuple) and all(isinstance(t, tuple) and len(t) == 2 and isinstance(t[0], bytes) and isinstance(t[1], bytes) for t in f)
        if not ok_type or f != model.fields():
            ctx.violation("fields-differ", {"slot": slot, "real": f, "model": model.fields(), "history": hist[-12:]}, classify(hist))
            return False
    return True


def classify(hist):
    """No divergence is known on the unchanged tree, so no mechanism is defined: every divergence is unclassified."""
    return None


def one_history(ctx, r):
    choose_universe(r)
    n_ops = r.choice([1, 2, 3, 5, 8, 12, 20, 40])
    near = False
    init = gen_fields(r, r.choice([0, 1, 2, 3, 5]))
    pool = [(Headers(init), ref.RefHeaders(init))]
    hist = [("init", init)]
    hit_multi, raised, did_rt = set(), set(), False
    nontrivial = False
    if not check_fields(ctx, pool, hist):
        return ("bad-init",), True, hist
    for _ in range(n_ops):
        op = r.choices(OP_NAMES, OP_W)[0]
        slot = r.randrange(len(pool))
        real, model = pool[slot]
        k, v = gen_key(r), gen_val(r)
        # does this op address a name that is present several times or in another spelling?
        idx = model._idx(k)
        special = len(idx) > 1 or any(model.f[i][0] != ref.to_b(k) for i in idx)
        rec = (op, slot, k, v)
        res_r = res_m = None
        if op == "getitem":
            res_r, res_m = call(real.__getitem__, k), call(model.getitem, k)
        elif op == "get":
            res_r, res_m = call(real.get, k, v), call(model.get, k, v)
        elif op == "contains":
            res_r, res_m = call(real.__contains__, k), call(model.contains, k)
        elif op == "setitem":
            res_r, res_m = call(real.__setitem__, k, v), call(model.setitem, k, v)
        elif op == "delitem":
            res_r, res_m = call(real.__delitem__, k), call(model.delitem, k)
        elif op == "add":
            res_r, res_m = call(real.add, k, v), call(model.add, k, v)
        elif op == "insert":
            i = r.randint(-len(model.f) - 2, len(model.f) + 2)
            rec = (op, slot, i, k, v)
            res_r, res_m = call(real.insert, i, k, v), call(model.insert, i, k, v)
        elif op == "get_all":
            res_r, res_m = call(real.get_all, k), call(model.get_all, k)
        elif op == "set_all":
            vs = [gen_val(r) for _ in range(r.choice([0, 1, 1, 2, 3, 4]))]
            rec = (op, slot, k, vs)
            res_r, res_m = call(real.set_all, k, list(vs)), call(model.set_all, k, list(vs))
        elif op == "pop":
            if r.random() < 0.5:
                res_r, res_m = call(real.pop, k), call(model.pop, k)
            else:
                rec = (op, slot, k, "default", v)
                res_r, res_m = call(real.pop, k, v), call(model.pop, k, v)
        elif op == "popitem":
            special = len(model.f) > 0 and len(model._idx(model.f[0][0])) > 1
            res_r, res_m = call(real.popitem), call(model.popitem)
        elif op == "setdefault":
            res_r, res_m = call(real.setdefault, k, v), call(model.setdefault, k, v)
        elif op == "update_pairs":
            pairs = [(gen_key(r), gen_val(r)) for _ in range(r.choice([0, 1, 2, 3]))]
            rec = (op, slot, pairs)
            special = any(len(model._idx(pk)) > 1 or any(model.f[i][0] != ref.to_b(pk) for i in model._idx(pk)) for pk, _ in pairs)
            res_r, res_m = call(real.update, list(pairs)), call(model.update_pairs, list(pairs))
        elif op == "update_from":
            other = r.choice([o for o in range(len(pool)) if o != slot] or [slot])
            rec = (op, slot, "from", other)
            special = len(pool[other][1].f) > pool[other][1].length()
            res_r, res_m = call(real.update, pool[other][0]), call(model.update_from, pool[other][1].copy())
        elif op == "update_kwargs":
            kw = {r.choice([n for n in CUR["names"] if isinstance(n, str)]): r.choice(["1", "2", ""])}
            rec = (op, slot, kw)
            special = any(len(model._idx(pk)) > 1 or any(model.f[i][0] != ref.to_b(pk) for i in model._idx(pk)) for pk in kw)
            res_r, res_m = call(real.update, **kw), call(model.update_pairs, list(kw.items()))
        elif op == "keys":
            m = r.random() < 0.5
            rec = (op, slot, m)
            res_r, res_m = call(real.keys, m), call(model.keys, m)
        elif op == "values":
            m = r.random() < 0.5
            rec = (op, slot, m)
            res_r, res_m = call(real.values, m), call(model.values, m)
        elif op == "items":
            m = r.random() < 0.5
            rec = (op, slot, m)
            res_r, res_m = call(real.items, m), call(model.items, m)
        elif op == "iter":
            res_r, res_m = call(real.__iter__), call(model.names)
        elif op == "len":
            res_r, res_m = call(real.__len__), call(model.length)
        elif op == "eq":
            how = r.choice(["pool", "copy", "changed", "case", "foreign", "layout", "layout", "layout"])
            lay = layout_variant(r, model) if how == "layout" else None
            if how == "layout" and lay is None:
                how = "changed"
            rec = (op, slot, how)
            if how == "pool":
                o = r.randrange(len(pool))
                o_r, o_m = pool[o]
            elif how == "copy":
                o_r, o_m = Headers(model.fields()), model.copy()
            elif how == "changed":
                o_m = model.copy()
                o_m.add("b", "zz") if r.random() < 0.5 or not o_m.f else o_m.f.pop(r.randrange(len(o_m.f)))
                o_r = Headers(o_m.fields())
            elif how == "layout":
                o_m = lay
                o_r = Headers(o_m.fields())
                ctx.count("eq.layout_of_repeated_name")
            elif how == "case":
                o_m = ref.RefHeaders([(n.swapcase(), v_) for n, v_ in model.f])
                o_r = Headers(o_m.fields())
            else:
                o_r, o_m = model.fields(), model.fields()
            res_m = ("ok", model.eq(o_m))
            res_r = call(real.__eq__, o_r)
            ne = call(real.__ne__, o_r)
            if res_m[1] is None:
                res_m = res_r  # unspecified
                ctx.count("eq.unspecified")
            elif ne != ("ok", not res_m[1]):
                res_r = ("ne-inconsistent", ne)
        elif op == "copy":
            c_r, c_m = real.copy(), model.copy()
            res_r, res_m = ("ok", type(c_r) is Headers), ("ok", True)
            if len(pool) < 3:
                pool.append((c_r, c_m))
            else:
                t = r.randrange(len(pool))
                rec = (op, slot, "into", t)
                pool[t] = (c_r, c_m)
        elif op == "clear":
            # clear() is "popitem until KeyError": check one popitem step on throw-away copies first, so that a
            # popitem that removes nothing is reported as a divergence instead of looping forever
            t_r, t_m = Headers(real.fields), model.copy()
            pre_r, pre_m = call(t_r.popitem), call(t_m.popitem)
            if pre_r != pre_m or t_r.fields != t_m.fields():
                res_r, res_m = ("popitem-before-clear", pre_r, t_r.fields), ("popitem-before-clear", pre_m, t_m.fields())
            else:
                res_r, res_m = call(real.clear), call(model.clear)
        elif op == "new_kwargs":
            base = gen_fields(r, r.choice([0, 1, 2]))
            kw = {r.choice(["a", "b", "x_y", "X_y", "Aa"]): r.choice(["1", "é", b"\xff"])}
            rec = (op, slot, base, kw)
            n_r = Headers(base, **kw)
            n_m = ref.RefHeaders(base)
            n_m.update_pairs([(k_.replace("_", "-"), v_) for k_, v_ in kw.items()])
            pool[slot] = (n_r, n_m)
            res_r = res_m = ("ok", None)
        elif op == "roundtrip":
            if all(ref.is_valid_field(n, v_) for n, v_ in model.f):
                roundtrip(ctx, list(model.f), "history-state")
                did_rt = True
            res_r = res_m = ("ok", None)
        if not near and isinstance(k, (str, bytes)):
            lk = loose(k)
            near = any(loose(n) == lk and ref.fold(n) != ref.fold(ref.to_b(k)) for n, _ in model.f)
        hist.append(rec)
        ctx.count("op.result")
        ctx.count(f"ops.{op}")
        if special:
            hit_multi.add(op)
            if op in MUTATORS:
                nontrivial = True
        if res_m == ("KeyError",):
            raised.add(op)
        if res_r != res_m:
            ctx.violation("result-differs", {"op": rec, "real": res_r, "model": res_m, "fields_before_model_now": model.fields(), "history": hist[-12:]}, None)
            return ("diverged", op), True, hist
        if not check_fields(ctx, pool, hist):
            return ("diverged-fields", op), True, hist
    ln = 0 if n_ops <= 3 else 1 if n_ops <= 12 else 2
    hm = sorted(hit_multi & MUTATORS)
    if near:
        ctx.count("histories.with_near_equal_distinct_names")
    return (CUR["family"], near, ln, tuple(hm) if len(hm) <= 3 else ("many", len(hm)), bool(hit_multi - MUTATORS), bool(raised), did_rt), nontrivial or near, hist


def _alarm(signum, frame):
    raise Inconclusive("history did not finish within 10 s")


AMBIENT_TESTS = [
    "test/mitmproxy/test_http.py", "test/mitmproxy/net/http", "test/mitmproxy/coretypes/test_multidict.py", "test/mitmproxy/proxy/layers/http",
    "test/mitmproxy/addons/test_modifyheaders.py", "test/mitmproxy/addons/test_stickycookie.py", "test/mitmproxy/addons/test_anticache.py",
    "test/mitmproxy/addons/test_mapremote.py", "test/mitmproxy/addons/test_maplocal.py",
]


def ambient(ctx):
    """Thorough tier, worker 0: the repository's own http tests run in a subprocess with every Headers operation
    shadow-checked against the model (pytest plugin vf/gen/c35_ambient.py). A failing/timed-out subprocess is only counted."""
    import json
    import os
    import subprocess
    import tempfile

    from vf.core import PY, REPO, ROOT

    out = tempfile.mktemp(prefix="c35-ambient-", suffix=".json")
    env = dict(os.environ, C35_AMBIENT_OUT=out, PYTHONPATH=f"{ROOT}:{REPO}", PYTHONDONTWRITEBYTECODE="1")
    tests = [t for t in AMBIENT_TESTS if os.path.exists(os.path.join(REPO, t))]
    try:
        subprocess.run([PY, "-m", "pytest", "-q", "-x", "-p", "vf.gen.c35_ambient", "-p", "no:cacheprovider", *tests], cwd=REPO, env=env, timeout=170, capture_output=True)
        with open(out) as f:
            st = json.load(f)
    except (subprocess.TimeoutExpired, OSError, ValueError):
        ctx.count("ambient.inconclusive")
        return
    finally:
        if os.path.exists(out):
            os.unlink(out)
    ctx.count("ambient.ops_checked", st["checked"])
    ctx.count("ambient.ops_skipped_out_of_domain", st["skipped"])
    ctx.extra["ambient_ops_by_method"] = st["by_op"]
    for v in st["violations"]:
        ctx.violation("ambient-divergence", v, None)


def run(ctx):
    with_ambient = ctx.tier == "thorough" and ctx.worker == 0 and ctx.only_case is None
    try:
        histories(ctx, frac=0.85 if with_ambient else 1.0)
    finally:
        signal.alarm(0)
    if with_ambient:
        ambient(ctx)


def histories(ctx, frac):
    signal.signal(signal.SIGALRM, _alarm)
    for i in ctx.cases(frac=frac):
        r = ctx.rng
        signal.alarm(10)  # step watchdog: a non-terminating operation makes the case inconclusive, not a violation
        try:
            out = ctx.guard(one_history, ctx, r, what="history")
        finally:
            signal.alarm(0)
        fields = gen_valid_fields(r)
        if all(ref.is_valid_field(n, v) for n, v in fields):
            ctx.guard(roundtrip, ctx, fields, "generated", what="roundtrip")
        if out is None:
            ctx.case(("exception",), nontrivial=True)
            continue
        sig, nontrivial, hist = out
        ctx.case(sig, nontrivial=nontrivial, sample={"history": hist[:14], "n_ops": len(hist) - 1})
