"""C09 -- connection lifecycle events pair up; per-destination concurrency is bounded; no resources remain.

Engine B: the REAL mitmproxy.proxy.server.LiveConnectionHandler (handle_client, open_connection,
handle_connection, server_event, close_connection, drain_writers, TimeoutWatchdog) runs on a virtual-time asyncio
loop with in-memory sockets.  A scripted probe layer issues 1-12 upstream connection attempts to 1-3 addresses;
a fault plan decides per await point: connect delay / refusal / hang, peer data / EOF / read error, drain()
raising OSError, client EOF or error at a random virtual time, idle timeout, addons killing the client or an
upstream connection in their hook, slow hooks (so that cancellation lands inside a hook or while an attempt is
parked on the per-address semaphore).
Monitors (M1 automata over the recorded hook log + resource counters kept by the fake open_connection):
  client_pairing   client_connected exactly once, client_disconnected exactly once and after it
  attempt_pairing  every server_connect is followed by exactly one of server_connected / server_connect_error
  disconnect_pairing every server_connected is followed by exactly one server_disconnected
  bound            at every instant <= 5 in-memory sockets are open to one address for the client
  resources        after handle_client returned and the loop has drained: no fake socket open, no task pending
"""
import asyncio
import collections

from mitmproxy import options as moptions
from mitmproxy.connection import ConnectionState
from mitmproxy.proxy import commands, events, layer, mode_specs, server, server_hooks

from vf import vloop

PROPERTY = "C09"
LEVEL = "fault_enumeration"
ENGINE = "vloop"
BUDGET = {"quick": (1500, 16), "thorough": (100000, 230)}
WORKERS = {"quick": 4, "thorough": 16}
REQUIRED = ["client_pairing", "attempt_pairing", "disconnect_pairing", "bound", "resources", "saw_six_or_more_attempts_to_one_address"]
TECHNIQUE = "runtime monitoring: real asyncio ConnectionHandler on a virtual-time loop with injected faults; hook-log automata + open-socket counter"
RULE = (
    "case = (1-12 upstream attempts over 1-3 addresses, per-attempt connect plan, per-connection peer script, client close time/kind, "
    "hook delays and kills); signature = (sorted fault kinds, #attempts bucket, max attempts to one address bucket, state of attempts at "
    "client close [parked/connecting/open]); non-trivial iff >=1 upstream attempt and >=1 fault"
)
ASSUMPTIONS = [
    "'resources' = open in-memory sockets and unfinished handler tasks at quiescence after handle_client returned (server sockets are "
    "legitimately closed shortly AFTER the client_disconnected hook); leftover dict entries are not resources",
    "the layer is a scripted probe layer; the asyncio code under test is entirely mitmproxy's",
]
LEVEL_TEXT = (
    "Fault enumeration in virtual time: the real handler coroutine graph runs against a fault plan that places delays, errors, closes "
    "and cancellations at its await points; automata over the hook log and a socket counter decide pairing, the bound of 5 and cleanup."
)
LEVEL_NOTE = "Trusted: vf/vloop.py (virtual clock, fake streams). asyncio itself is real."


from vf.connharness import run_case, gen_plan  # noqa: E402


def hook_fates(rec):
    """{(name, key): 'done' | 'cancelled'} and cancel times, from the recorder."""
    fate, when = {}, {}
    for t, n, k, ph in rec:
        if ph == "start":
            fate[(n, k)] = "running"
        elif ph == "cancelled":
            fate[(n, k)] = "cancelled"
            when[(n, k)] = t
        elif ph == "end" and fate.get((n, k)) == "running":
            fate[(n, k)] = "done"
    return fate, when


def classify(kind, plan, rec, key=None, world=None):
    """Mechanisms are conditions on the history: WHERE a task cancellation (client gone, or drain error) landed."""
    fate, when = hook_fates(rec)
    conn_of = {id(a.get("conn")): i for i, a in enumerate(plan["attempts"]) if a.get("conn") is not None}
    cut = {k for (n, k), f in fate.items() if n == "server_connected" and f == "cancelled"}
    if kind == "attempt:server_connect-without-result" and key is not None:
        if fate.get(("server_connect", key)) == "cancelled":
            return "cancelled-inside-server_connect-hook"
        a = plan["attempts"][conn_of[key]] if key in conn_of else None
        if a is not None and not a.get("dialled") and not a["kill_in_hook"] and fate.get(("server_connect", key)) == "done":
            # the only await between the end of the server_connect hook and the dial is the per-address semaphore
            return "cancelled-while-waiting-for-per-address-slot"
    if kind.startswith("disconnect:server_connected followed by 0") and key in cut:
        return "cancelled-inside-server_connected-hook"
    if kind.startswith("resources:socket still open"):
        expected = {f"srv{conn_of[k]}" for k in cut if k in conn_of}
        if key and set(key) <= expected:
            return "cancelled-inside-server_connected-hook"
    if kind.startswith("bound:") and world is not None and cut:
        # recompute the maximum without the sockets leaked by that mechanism (from the moment their hook was cut)
        leaked_at = {f"srv{conn_of[k]}": when[("server_connected", k)] for k in cut if k in conn_of}
        open_now, worst = set(), 0
        for ev in world.log:
            t, what = ev[0], ev[1]
            if what == "socket_open" and tuple(ev[3]) == tuple(key):
                open_now.add(ev[2])
            elif what == "socket_close":
                open_now.discard(ev[2])
            live = {n for n in open_now if not (n in leaked_at and leaked_at[n] <= t + 2e-3)}  # world.log times are rounded to 1 ms
            worst = max(worst, len(live))
        if worst <= 5:
            return "cancelled-inside-server_connected-hook"
    return None


def check(ctx, plan, rec, world, h, pending):
    witness = {"plan": {k: v for k, v in plan.items() if k != "attempts"}, "attempts": [{k: v for k, v in a.items() if k != "conn"} for a in plan["attempts"]], "hooks": [(round(t, 3), n, (k if k == "client" else hex(k)[-4:]), ph) for t, n, k, ph in rec][:120], "world": world.log[:80]}
    names = [(n, k) for t, n, k, ph in rec if ph == "start"]
    rec = list(rec)
    # client pairing
    ctx.count("client_pairing")
    cc = [i for i, (n, k) in enumerate(names) if n == "client_connected"]
    cd = [i for i, (n, k) in enumerate(names) if n == "client_disconnected"]
    if len(cc) != 1 or len(cd) != 1 or cc[0] != 0 or cd[0] < cc[0]:
        ctx.violation("client:connected/disconnected not exactly once in order", witness)
    # per attempt
    per = collections.defaultdict(list)
    for n, k in names:
        if k != "client":
            per[k].append(n)
    per_addr = collections.Counter(a["addr"] for a in plan["attempts"])
    if per_addr and max(per_addr.values()) >= 6:
        ctx.count("saw_six_or_more_attempts_to_one_address")
    for k, seq in per.items():
        ctx.count("attempt_pairing")
        if seq.count("server_connect") != 1 or seq[0] != "server_connect":
            ctx.violation("attempt:server_connect not exactly once first", {**witness, "seq": seq})
            continue
        res = [n for n in seq if n in ("server_connected", "server_connect_error")]
        if len(res) != 1:
            conn = next((a for a in plan["attempts"] if id(a.get("conn")) == k), None)
            parked = conn is not None and not conn.get("dialled") and not conn.get("kill_in_hook")
            kind = "attempt:server_connect-without-result" if not res else "attempt:both-or-repeated-results"
            ctx.violation(kind, {**witness, "seq": seq, "parked_on_semaphore": parked}, classify(kind, plan, rec, k))
            continue
        if res[0] == "server_connected":
            ctx.count("disconnect_pairing")
            nd = seq.count("server_disconnected")
            if nd != 1 or seq.index("server_disconnected") < seq.index("server_connected"):
                kind = f"disconnect:server_connected followed by {nd} server_disconnected"
                ctx.violation(kind, {**witness, "seq": seq}, classify(kind, plan, rec, k))
        elif "server_disconnected" in seq:
            ctx.violation("disconnect:server_disconnected without server_connected", {**witness, "seq": seq})
    ctx.count("bound")
    for addr, m in world.max_open_by_addr.items():
        if m > 5:
            ctx.violation("bound:more than 5 open connections to one address", {**witness, "addr": addr, "max_open": m}, classify("bound:", plan, rec, addr, world))
    ctx.count("resources")
    still = world.still_open()
    if still:
        kind = "resources:socket still open after client_disconnected and quiescence"
        ctx.violation(kind, {**witness, "open": still}, classify(kind, plan, rec, still))
    if pending and pending != "deadlock":
        ctx.violation("resources:task still pending after quiescence", {**witness, "tasks": [t.get_name() for t in pending][:10]})


def run(ctx):
    for i in ctx.cases():
        r = ctx.rng
        try:
            plan, rec, world, h, pending = run_case(ctx, r)
        except Exception as e:
            import traceback

            ctx.violation("harness-or-handler-crash", {"exc": repr(e), "tb": traceback.format_exc()[-1500:]})
            ctx.case(("crash",), False)
            continue
        if pending == "deadlock":
            # nothing can make progress any more although handle_client has not returned: a connection that never closes
            if not (plan["client_close_kind"] == "timeout"):
                ctx.violation("handler-never-finishes", {"plan": {k: v for k, v in plan.items() if k != "attempts"}, "hooks": [(round(t, 3), n, ph) for t, n, k, ph in rec][:80]})
            else:
                ctx.violation("idle-connection-not-timed-out", {"plan": {k: v for k, v in plan.items() if k != "attempts"}})
            ctx.case(("deadlock",), False)
            continue
        check(ctx, plan, rec, world, h, pending)
        faults = sorted({a["connect"] for a in plan["attempts"] if a["connect"] != "ok"} | {"kill" for a in plan["attempts"] if a["kill_in_hook"]} | {"drain" for a in plan["attempts"] if a["drain_error"]} | {plan["client_close_kind"]} | ({"slowhook"} if plan["hook_delay"] else set()) | {p[0] for a in plan["attempts"] for p in a["peer"] if p[0] != "data"})
        per_addr = collections.Counter(a["addr"] for a in plan["attempts"])
        undialled = sum(1 for a in plan["attempts"] if not a.get("dialled"))
        sig = (tuple(faults), min(len(plan["attempts"]), 8), min(max(per_addr.values()), 7), min(undialled, 3), round(plan["client_close_at"]))
        ctx.seen("hook_sequences", ",".join(n for t, n, k, ph in rec if ph == "start")[:300])
        ctx.case(sig, bool(plan["attempts"]) and bool(set(faults) - {"eof"}), {"attempts": len(plan["attempts"]), "faults": faults, "client_close": (plan["client_close_kind"], plan["client_close_at"]), "hooks": [n for t, n, k, ph in rec if ph == "start"][:30]})
