"""C18 -- ALPN negotiation with the client is consistent with offers and upstream.

Monitor (differential at the callback boundary, exhaustive): the real ``tlsconfig.alpn_select_callback`` is
called on the real pyOpenSSL connection produced by the real ``TlsConfig.tls_start_client`` (so the AppData,
including the secure-web-proxy ``client_alpn`` override, is the one production code builds) for EVERY
combination of

    layer stack  in {secure-web-proxy outer, regular-proxy inner, transparent}
    upstream     in {unknown(None), none negotiated(b""), h2, h3, http/1.1, http/1.0, http/0.9, x-unknown}
    http2 option in {True, False}
    client offer in all ordered lists of length <= 3 over {h2, h3, http/1.1, http/1.0, http/0.9, x-unknown}

and the returned value is judged by an oracle written from the property statement only.  The state of the upstream
connection is an input dimension as well: a known upstream protocol (handshake completed, ``server.alpn`` set) is crossed
with ``server.state`` in {OPEN, CAN_READ, CAN_WRITE, CLOSED} (peer half-closed / closed after its handshake but before
``tls_start_client`` runs); a protocol that is known stays known.  ``client.alpn`` pre-set by an addon in its
``tls_clienthello`` hook (the documented way to steer the client's ALPN; None, b"", http/1.1, h2, h3, unknown; offered by the client
or not) is a further dimension on all three stacks and on the real-NextLayer secure-web-proxy stack.  A second leg
performs real in-memory TLS handshakes (stdlib ``ssl`` client with MemoryBIOs against the pyOpenSSL
connection) and applies the same oracle to ``selected_alpn_protocol()`` as seen by the client.

A third leg runs two-handshake *histories on one client connection* (secure web proxy, TLS over TLS): the real
``ClientTLSLayer`` is driven sans-io with the real TlsConfig hooks (tls_clienthello, tls_start_client, ...) for an outer
handshake (client without ALPN / offering lists with or without http/1.1), then -- on the same Context and Client object,
after the CONNECT, with the upstream protocol known or unknown -- a second, inner ``ClientTLSLayer`` handshake with its
own offer list.  The oracle is unchanged: outer = secure-web-proxy rule, inner = offered-or-none, upstream-or-none, no h2
when disabled.

A fourth leg ("realstack") lets the REAL NextLayer addon build the layer stack: ``modes.HttpProxy(context)`` is the top
layer, its ``next_layer`` hook is answered by the real ``NextLayer().next_layer`` from the ClientHello bytes (which creates
ClientTLSLayer and HttpLayer up front), TlsConfig supplies the TLS connection, and the client's view of the negotiated
protocol on this secure-web-proxy *outer* connection is judged (only http/1.1 or none).  The history leg uses this real
stack for its outer handshake as well.

A fifth leg ("pair") takes the upstream protocol from a REAL upstream handshake instead of a preset attribute: the real
``ServerTLSLayer`` >> ``ClientTLSLayer`` pair (eager strategy, upstream TLS first) is driven with two in-memory stdlib
``ssl`` peers -- an upstream server that supports no ALPN / h2+http/1.1 / http/1.1 / h2 / only unknown protocols, and a
client with its offer list.  What the *upstream peer* reports as negotiated (a protocol, or nothing = "known, none
negotiated") is the oracle's upstream value; the client must get exactly that protocol or none.
"""
import itertools
import ssl
import tempfile

from OpenSSL import SSL

from mitmproxy import connection
from mitmproxy import tls
from mitmproxy.proxy import commands
from mitmproxy.proxy import events
from mitmproxy.proxy import layer as mlayer
from mitmproxy.addons import next_layer
from mitmproxy.addons import tlsconfig
from mitmproxy.addons.proxyserver import Proxyserver
from mitmproxy.proxy import context
from mitmproxy.proxy import layers
from mitmproxy.proxy import mode_specs
from mitmproxy.proxy.layers import modes
from mitmproxy.test import taddons

PROPERTY = "C18"
LEVEL = "exploration"
EXHAUSTIVE = True
ENGINE = "direct"
TECHNIQUE = "exhaustive enumeration of the ALPN decision table + real in-memory handshakes"
BUDGET = {"quick": (1_200, 18), "thorough": (5_000, 200)}
WORKERS = {"quick": 2, "thorough": 16}
REQUIRED = ["callback.offered_or_none", "callback.upstream_or_none", "callback.no_h2_when_disabled",
            "callback.outer_http11_only", "callback.selected_some", "handshake.oracle", "handshake.selected_some",
            "history.outer.oracle", "history.inner.oracle", "history.inner.selected_some", "history.inner_after_outer_alpn",
            "realstack.outer_http11_only", "realstack.selected_some",
            "pair.oracle", "pair.upstream_negotiated_none", "pair.upstream_negotiated_some", "pair.client_selected_some",
            "callback.upstream_known_but_not_open", "handshake.upstream_known_but_not_open", "pair.upstream_closed_after_handshake",
            "callback.client_alpn_preset", "callback.client_alpn_preset_and_offered", "handshake.client_alpn_preset",
            "realstack.client_alpn_preset", "realstack.client_alpn_preset_and_offered"]
RULE = (
    "case = (layer stack, upstream ALPN, upstream connection state, http2 option, client offer list); the callback leg enumerates all "
    "180 configurations (3 stacks x 2 http2 x [unknown upstream x {CLOSED, OPEN} + 7 known upstream values x {OPEN, CAN_READ, "
    "CAN_WRITE, CLOSED}]) plus 120 configurations with client.alpn pre-set by an addon (3 stacks x 2 http2 x upstream in {unknown, none, "
    "h2, http/1.1} x pin in {b'', http/1.1, h2, h3, x-unknown}), each x 259 "
    "combinations (offer lists of length<=3 over 6 protocol classes, ordered, with repetition) in both tiers; the handshake "
    "leg runs real TLS handshakes for 20 offer lists (all of length<=1, all ordered pairs over h2/http/1.1/h3/unknown) in quick / all of "
    "length<=3 plus random longer lists with random unknown "
    "protocol names (thorough), and a client without ALPN extension; the history leg runs outer+inner handshakes on one client "
    "connection through the real ClientTLSLayer: outer offer in {no ALPN, [http/1.1], [h2,http/1.1], [h2], [x-unknown,http/1.1]} x "
    "upstream x http2 x inner offer (quick: 13 lists incl. every single protocol and pairs containing the outer protocol; "
    "thorough: all lists of length<=2 plus random ones); the realstack leg (layer stack built by the real NextLayer addon under "
    "HttpProxy / HttpUpstreamProxy) enumerates all offer lists of length<=2 (thorough: <=3) x http2; the pair leg (real "
    "ServerTLSLayer handshake first against an in-memory upstream peer, then the client handshake) enumerates 6 upstream ALPN "
    "configurations x http2 x 2 stacks x 12 client offer lists (thorough: all lists of length<=2 plus random ones); distinct = distinct (leg, stack, upstream, http2, offer "
    "classes[, outer offer]) combination; non-trivial = the client offers at least one protocol"
)
ASSUMPTIONS = [
    "client.alpn pre-set by an addon (in tls_clienthello) is the documented, repo-tested override of mitmproxy's own ALPN choice: with "
    "such a pin the clause 'upstream known -> that protocol or none' is NOT judged (the user decided), while 'offered or none', 'secure "
    "web proxy outer connection: http/1.1 or none' and 'no h2 when http2 is disabled' are judged regardless of the pin",
    "the stdlib ssl module (OpenSSL client) reports the negotiated ALPN truthfully",
]
LEVEL_TEXT = (
    "The decision table of the ALPN callback over the protocol classes named in the property is finite and is "
    "enumerated completely in both tiers through the real AppData construction, so for offer lists of length <= 3 the "
    "result is exhaustive rather than sampled. Longer lists and real handshakes are sampled (exploration)."
)
LEVEL_NOTE = "Trusted: pyOpenSSL/OpenSSL deliver the client's offer list to the callback unchanged; the oracle is 15 lines written from the statement."

PROTOS = [b"h2", b"h3", b"http/1.1", b"http/1.0", b"http/0.9", b"x-unknown"]
UPSTREAMS = [None, b"", *PROTOS]
STACKS = ["swp-outer", "regular-inner", "transparent"]
OFFERS = [tuple(c) for n in range(0, 4) for c in itertools.product(PROTOS, repeat=n)]  # 259
SERVER_STATES = ["OPEN", "CAN_READ", "CAN_WRITE", "CLOSED"]
# upstream unknown: no connection (CLOSED) or a TCP connection without TLS yet (OPEN); upstream known: the handshake completed
# and the connection is open, half-closed in either direction, or closed by the time the client handshake starts
CONFIGS = [(s, u, h, st) for s in STACKS for u in UPSTREAMS for h in (True, False)
           for st in (("CLOSED", "OPEN") if u is None else SERVER_STATES)]  # 180
PINS = [b"", b"http/1.1", b"h2", b"h3", b"x-unknown"]  # client.alpn assigned by an addon in tls_clienthello (None = no such addon)
CONFIGS = [c + (None,) for c in CONFIGS]
PIN_CONFIGS = [(s, u, h, ("CLOSED" if u is None else "OPEN"), p) for s in STACKS for u in (None, b"", b"h2", b"http/1.1")
               for h in (True, False) for p in PINS]  # 120
ALL_CONFIGS = CONFIGS + PIN_CONFIGS  # 300
N_ENUM = len(ALL_CONFIGS) * len(OFFERS)

NONE = "none"


def oracle(stack, upstream, http2, offers, selected, pin=None):
    """Return list of violated clauses. selected: bytes or NONE.
    pin = client.alpn assigned by an addon: the explicit, documented override of mitmproxy's own choice (repo test "respect addons
    setting client.alpn" pins a protocol although upstream negotiated h2). With a pin the mirroring clause is therefore not judged;
    the three capability clauses (offered-or-none, outer secure-web-proxy connection http/1.1 only, no h2 when disabled) are."""
    bad = []
    if selected != NONE and selected not in offers:
        bad.append("not-offered")
    if stack in ("swp-outer", "swp-outer-realstack"):
        if selected not in (NONE, b"http/1.1"):
            bad.append("outer-not-http11")
    elif upstream is not None and pin is None:
        # upstream protocol already known ("" = the server negotiated none)
        want = upstream if upstream else NONE
        if selected not in (NONE, want):
            bad.append("upstream-mismatch")
    if not http2 and selected == b"h2":
        bad.append("h2-while-http2-disabled")
    return bad


def classify(stack, upstream, http2, offers, bad, pin=None):
    """Mechanism from the input only."""
    if pin is not None:
        if bad == ["h2-while-http2-disabled"] and pin == b"h2" and b"h2" in offers and not http2 and not stack.startswith("swp-outer"):
            return "addon-pinned-h2-while-http2-disabled"
        return None
    if stack == "swp-outer-realstack":
        # stack built by the real NextLayer addon: [HttpProxy, ClientTLSLayer, HttpLayer] (3 layers, not 2); the client's most
        # preferred HTTP protocol is not http/1.1
        first_http = next((o for o in offers if o in (b"h3", b"h2", b"http/1.1", b"http/1.0", b"http/0.9") and (http2 or o != b"h2")), None)
        if bad == ["outer-not-http11"] and first_http not in (None, b"http/1.1"):
            return "secure-web-proxy-outer-alpn-not-forced-with-real-layer-stack"
        return None
    if stack == "swp-outer":
        return None
    if bad == ["upstream-mismatch"] and upstream and upstream not in offers:
        return "upstream-alpn-not-offered-by-client"
    if bad == ["h2-while-http2-disabled"] and upstream == b"h2" and b"h2" in offers:
        return "upstream-h2-while-http2-disabled"
    return None


def _scratch_dir(prefix: str) -> str:
    """Temporary directory that is removed when the worker process exits (nothing is left under /tmp)."""
    import atexit
    import shutil

    d = tempfile.mkdtemp(prefix=prefix)
    atexit.register(shutil.rmtree, d, ignore_errors=True)
    return d


class World:
    def __init__(self):
        self.ta = tlsconfig.TlsConfig()
        self.nl = next_layer.NextLayer()
        # Proxyserver only contributes its options (connection_strategy, validate_inbound_headers, ...)
        self.tctx_cm = taddons.context(self.ta, self.nl, Proxyserver())
        self.tctx = self.tctx_cm.__enter__()
        self.tctx.configure(self.ta, confdir=_scratch_dir("vf-c18-"))
        self.http2 = None

    def close(self):
        self.tctx_cm.__exit__(None, None, None)

    def start_client(self, stack, upstream, http2, state="CLOSED", pin=None) -> SSL.Connection:
        if self.http2 != http2:
            self.tctx.configure(self.ta, http2=http2)
            self.http2 = http2
        client = connection.Client(peername=("192.0.2.1", 51234), sockname=("127.0.0.1", 8080), timestamp_start=1.0)
        client.sni = "example.com"
        ctx = context.Context(client, self.tctx.options)
        ctx.server.address = ("example.com", 443)
        ctx.server.alpn = upstream
        ctx.server.state = connection.ConnectionState[state]
        if upstream is not None:  # the upstream TLS handshake has completed
            ctx.server.tls = True
            ctx.server.timestamp_start = 1.5
            ctx.server.timestamp_tls_setup = 2.0
        # Layer.__init__ appends itself to context.layers, exactly as in production.
        assert ctx.layers == []
        if stack == "swp-outer":
            modes.HttpProxy(ctx)
            layers.ClientTLSLayer(ctx)
        elif stack == "regular-inner":
            modes.HttpProxy(ctx)
            layers.HttpLayer(ctx, layers.http.HTTPMode.regular)
            layers.ClientTLSLayer(ctx)
        else:
            modes.TransparentProxy(ctx)
            layers.ClientTLSLayer(ctx)
        if pin is not None:
            client.alpn = pin  # what an addon's tls_clienthello hook does, after the layers exist and before tls_start_client
        data = tls.TlsData(client, context=ctx)
        self.ta.tls_start_client(data)
        assert data.ssl_conn is not None
        return data.ssl_conn


def judge(ctx, leg, stack, upstream, http2, offers, selected, state=None, pin=None):
    bad = oracle(stack, upstream, http2, offers, selected, pin)
    if pin is not None:
        ctx.count(f"{leg}.client_alpn_preset")
        if pin in offers:
            ctx.count(f"{leg}.client_alpn_preset_and_offered")
    if upstream is not None and state not in (None, "OPEN"):
        ctx.count(f"{leg}.upstream_known_but_not_open")
    ctx.count(f"{leg}.offered_or_none" if leg == "callback" else f"{leg}.oracle")
    if leg == "callback":
        if stack == "swp-outer":
            ctx.count("callback.outer_http11_only")
        elif upstream is not None and pin is None:
            ctx.count("callback.upstream_or_none")
        if not http2:
            ctx.count("callback.no_h2_when_disabled")
    if selected != NONE:
        ctx.count(f"{leg}.selected_some")
    if bad:
        ctx.violation(
            f"{leg}:" + "+".join(bad),
            {"stack": stack, "upstream": upstream, "upstream_state": state, "http2": http2, "client_alpn_set_by_addon": pin,
             "offers": list(offers), "selected": selected},
            mechanism=classify(stack, upstream, http2, offers, bad, pin),
        )


def handshake(conn: SSL.Connection, offers):
    """Real TLS handshake in memory; returns the ALPN the *client* observes (bytes or NONE)."""
    cctx = ssl.SSLContext(ssl.PROTOCOL_TLS_CLIENT)
    cctx.check_hostname = False
    cctx.verify_mode = ssl.CERT_NONE
    if offers is not None:
        cctx.set_alpn_protocols([o.decode("latin-1") for o in offers])
    inc, out = ssl.MemoryBIO(), ssl.MemoryBIO()
    c = cctx.wrap_bio(inc, out, server_hostname="example.com")
    for _ in range(12):
        done = False
        try:
            c.do_handshake()
            done = True
        except ssl.SSLWantReadError:
            pass
        data = out.read()
        if data:
            conn.bio_write(data)
        try:
            conn.do_handshake()
        except SSL.WantReadError:
            pass
        try:
            inc.write(conn.bio_read(1 << 16))
        except SSL.WantReadError:
            pass
        if done:
            sel = c.selected_alpn_protocol()
            srv = conn.get_alpn_proto_negotiated()
            return (sel.encode("latin-1") if sel is not None else NONE), (srv if srv else NONE)
    return None, None


# ---- two-handshake histories on one client connection (real ClientTLSLayer, sans-io) ----------------------------------------

class Sink(mlayer.Layer):
    """Stand-in for whatever sits on top of a TLS layer (the HTTP layer)."""

    def _handle_event(self, event):
        yield from ()


OUTER_OFFERS = [None, (b"http/1.1",), (b"h2", b"http/1.1"), (b"h2",), (b"x-unknown", b"http/1.1")]
INNER_QUICK = [None, ()] + [(p,) for p in PROTOS] + [(b"h2", b"http/1.1"), (b"http/1.1", b"h2"), (b"h3", b"http/1.1"),
                                                         (b"x-unknown", b"http/1.1"), (b"http/1.0", b"http/1.1")]


def layer_handshake(w, lyr, client_conn, offers, real_next_layer=False, pin=None):
    """Full TLS handshake of a stdlib ssl client against a ClientTLSLayer; hooks go to the real TlsConfig addon.
    -> (ALPN the client observes or NONE, list of hook names) or (None, hooks) if the handshake did not complete."""
    cctx = ssl.SSLContext(ssl.PROTOCOL_TLS_CLIENT)
    cctx.check_hostname = False
    cctx.verify_mode = ssl.CERT_NONE
    if offers:
        cctx.set_alpn_protocols([o.decode("latin-1") for o in offers])
    inc, out = ssl.MemoryBIO(), ssl.MemoryBIO()
    c = cctx.wrap_bio(inc, out, server_hostname="example.com")
    hooks = []

    def pump(event):
        queue = [event]
        while queue:
            ev = queue.pop(0)
            for cmd in lyr.handle_event(ev):
                if isinstance(cmd, commands.StartHook):
                    hooks.append(cmd.name)
                    if isinstance(cmd, mlayer.NextLayerHook):
                        if real_next_layer:
                            w.nl.next_layer(cmd.data)
                        else:
                            cmd.data.layer = Sink(cmd.data.context)
                    elif hasattr(w.ta, cmd.name):
                        if cmd.name == "tls_clienthello" and pin is not None:
                            cmd.args()[0].context.client.alpn = pin  # a user addon steering the client's ALPN
                        getattr(w.ta, cmd.name)(*cmd.args())
                    queue.append(events.HookCompleted(cmd, None))
                elif isinstance(cmd, commands.SendData):
                    inc.write(cmd.data)
                elif isinstance(cmd, (commands.Log, commands.RequestWakeup)):
                    pass
                else:
                    raise AssertionError(f"unexpected command {cmd!r}")

    pump(events.Start())
    for _ in range(12):
        done = False
        try:
            c.do_handshake()
            done = True
        except ssl.SSLWantReadError:
            pass
        data = out.read()
        if data:
            try:
                pump(events.DataReceived(client_conn, data))
            except Exception as e:
                if not done:
                    raise
                # The client has completed its handshake: the selection is decided. What the child layer does with the
                # negotiated protocol afterwards (e.g. HTTP/3 over TCP asserts) is outside this property; it is recorded only.
                hooks.append(f"post-handshake-exception:{type(e).__name__}")
                data = b""
        if done and not data:
            sel = c.selected_alpn_protocol()
            return (sel.encode("latin-1") if sel is not None else NONE), hooks
    return None, hooks


def run_history(ctx, w, outer_offers, upstream, http2, inner_offers):
    """-> outcome tag"""
    if w.http2 != http2:
        w.tctx.configure(w.ta, http2=http2)
        w.http2 = http2
    client = connection.Client(peername=("192.0.2.1", 51234), sockname=("127.0.0.1", 8080), timestamp_start=1.0,
                               state=connection.ConnectionState.OPEN)
    c = context.Context(client, w.tctx.options)
    c.server.address = ("example.com", 443)
    wit = {"outer_offers": list(outer_offers) if outer_offers is not None else None, "upstream": upstream, "http2": http2,
           "inner_offers": list(inner_offers) if inner_offers is not None else None}
    # 1. secure web proxy: outer TLS between client and proxy
    #    (stack built by the real NextLayer addon from the ClientHello: HttpProxy >> ClientTLSLayer >> HttpLayer)
    top = modes.HttpProxy(c)
    sel_outer, hooks = layer_handshake(w, top, client, outer_offers, real_next_layer=True)
    if sel_outer is None or not client.tls_established:
        ctx.count("history.incomplete")
        return "outer-incomplete"
    ctx.count("history.outer.oracle")
    bad = oracle("swp-outer-realstack", None, http2, outer_offers or (), sel_outer)
    if bad:
        ctx.violation("history-outer:" + "+".join(bad), {**wit, "selected_outer": sel_outer, "layers": [type(x).__name__ for x in c.layers]},
                      mechanism=classify("swp-outer-realstack", None, http2, outer_offers or (), bad))
    # 2. CONNECT handled by the HTTP layer; upstream TLS established first (eager) -> its protocol is known, or not yet connected
    layers.ServerTLSLayer(c)
    # upstream unknown = lazy connection strategy (no server connection yet); known = eager, upstream TLS done first
    strategy = "lazy" if upstream is None else "eager"
    if w.tctx.options.connection_strategy != strategy:
        w.tctx.options.connection_strategy = strategy
    if upstream is not None:
        c.server.state = connection.ConnectionState.OPEN
        c.server.tls = True
        c.server.timestamp_tls_setup = 2.0
        c.server.alpn = upstream
    # 3. inner TLS on the same client connection
    inner = layers.ClientTLSLayer(c)
    sel_inner, hooks2 = layer_handshake(w, inner, client, inner_offers)
    if sel_inner is None:
        ctx.count("history.incomplete")
        return "inner-incomplete"
    ctx.count("history.inner.oracle")
    if sel_outer != NONE:
        ctx.count("history.inner_after_outer_alpn")
    if sel_inner != NONE:
        ctx.count("history.inner.selected_some")
    bad = oracle("regular-inner", upstream, http2, inner_offers or (), sel_inner)
    if bad:
        ctx.violation("history-inner:" + "+".join(bad), {**wit, "selected_outer": sel_outer, "selected_inner": sel_inner,
                                                           "hooks_inner": hooks2})
    ctx.seen("history_hook_sequences", tuple(hooks + ["|"] + hooks2))
    return f"outer={sel_outer if sel_outer == NONE else sel_outer.decode()},inner={sel_inner if sel_inner == NONE else cls_of(sel_inner)}"


def run_realstack(ctx, w, top_cls, http2, offers, pin=None):
    if w.http2 != http2:
        w.tctx.configure(w.ta, http2=http2)
        w.http2 = http2
    client = connection.Client(peername=("192.0.2.1", 51234), sockname=("127.0.0.1", 8080), timestamp_start=1.0,
                               state=connection.ConnectionState.OPEN)
    if top_cls is modes.HttpUpstreamProxy:
        client.proxy_mode = mode_specs.ProxyMode.parse("upstream:https://proxy.example:8443")
    c = context.Context(client, w.tctx.options)
    top = top_cls(c)
    sel, hooks = layer_handshake(w, top, client, offers, real_next_layer=True, pin=pin)
    if sel is None:
        ctx.count("realstack.incomplete")
        return "incomplete"
    stack = "swp-outer-realstack" if top_cls is modes.HttpProxy else "upstream-mode-outer"
    eff = offers or ()
    ctx.count("realstack.outer_http11_only" if top_cls is modes.HttpProxy else "realstack.upstream_mode_offered_or_none")
    if sel != NONE:
        ctx.count("realstack.selected_some")
    ctx.seen("realstack_layer_stacks", " >> ".join(type(x).__name__ for x in c.layers))
    if any(h.startswith("post-handshake-exception") for h in hooks):
        ctx.count("realstack.post_handshake_layer_exception")
        ctx.seen("post_handshake_layer_exceptions", (cls_of(sel) if sel != NONE else NONE, hooks[-1]))
    if pin is not None:
        ctx.count("realstack.client_alpn_preset")
        if pin in eff:
            ctx.count("realstack.client_alpn_preset_and_offered")
    bad = oracle(stack, None, http2, eff, sel, pin)
    if bad:
        ctx.violation("realstack:" + "+".join(bad), {"top_layer": top_cls.__name__, "http2": http2, "client_alpn_set_by_addon_in_tls_clienthello": pin,
                                                      "offers": list(eff), "selected": sel,
                                                      "layers_at_handshake": [type(x).__name__ for x in c.layers], "hooks": hooks},
                      mechanism=classify(stack, None, http2, eff, bad, pin))
    return sel if sel == NONE else cls_of(sel)


# ---- real upstream handshake first, then the client handshake (ServerTLSLayer >> ClientTLSLayer) -----------------------------

UPSTREAM_PEERS = [(), ("h2", "http/1.1"), ("http/1.1",), ("h2",), ("x-unknown",), ("h3", "x-unknown", "http/1.0")]
PAIR_CLOSE_QUICK = [(b"h2", b"http/1.1"), (b"http/1.1", b"h2"), (b"h2",), (b"http/1.1",), (b"h3", b"h2"), (b"x-unknown", b"h2")]
PAIR_CLIENT_QUICK = [None] + [(p,) for p in PROTOS] + [(b"h2", b"http/1.1"), (b"http/1.1", b"h2"), (b"h3", b"h2"), (b"x-unknown", b"h2"),
                                                        (b"http/1.0", b"x-unknown")]


class Peer:
    """A stdlib-ssl TLS endpoint over memory BIOs."""

    def __init__(self, sslctx, server_side):
        self.inc, self.out = ssl.MemoryBIO(), ssl.MemoryBIO()
        self.obj = sslctx.wrap_bio(self.inc, self.out, server_side=server_side, server_hostname=None if server_side else "example.com")
        self.done = False

    def step(self, data=b""):
        if data:
            self.inc.write(data)
        try:
            if not self.done:
                self.obj.do_handshake()
                self.done = True
            else:
                self.obj.read(65535)
        except (ssl.SSLWantReadError, ssl.SSLZeroReturnError):
            pass
        return self.out.read()


def upstream_pem(w) -> str:
    """Certificate + key for the in-memory upstream peer (created once per worker)."""
    if getattr(w, "_upstream_pem", None) is None:
        from cryptography.hazmat.primitives import serialization
        from mitmproxy import certs
        d = _scratch_dir("vf-c18-up-")
        store = certs.CertStore.from_store(d, "upstream", 2048)
        entry = store.get_cert("example.com", [])
        path = d + "/upstream.pem"
        with open(path, "wb") as f:
            f.write(entry.privatekey.private_bytes(serialization.Encoding.PEM, serialization.PrivateFormat.TraditionalOpenSSL,
                                                   serialization.NoEncryption()) + entry.cert.to_pem())
        w._upstream_pem = path
    return w._upstream_pem


def run_pair(ctx, w, stack, upstream_alpn, http2, offers, close_mode="open"):
    """close_mode: what the upstream peer does right after its handshake, i.e. while the proxy is still busy with the (async)
    tls_established_server / tls_start_client hooks: 'open' = nothing, 'half-closed' = sends FIN (the connection handler clears
    CAN_READ at once and queues ConnectionClosed behind the paused layer), 'closed' = connection gone."""
    if w.http2 != http2:
        w.tctx.configure(w.ta, http2=http2)
        w.http2 = http2
    if w.tctx.options.connection_strategy != "eager":
        w.tctx.options.connection_strategy = "eager"
    if not w.tctx.options.ssl_insecure:
        w.tctx.configure(w.ta, ssl_insecure=True)
    client = connection.Client(peername=("192.0.2.1", 51234), sockname=("127.0.0.1", 8080), timestamp_start=1.0,
                               state=connection.ConnectionState.OPEN)
    c = context.Context(client, w.tctx.options)
    c.server.address = ("example.com", 443)
    c.server.state = connection.ConnectionState.OPEN  # eager: the TCP connection to the server already exists
    if stack == "regular-inner":
        modes.HttpProxy(c)
        Sink(c)
    else:
        modes.TransparentProxy(c)
    top = layers.ServerTLSLayer(c)
    top.child_layer = layers.ClientTLSLayer(c)

    cctx = ssl.SSLContext(ssl.PROTOCOL_TLS_CLIENT)
    cctx.check_hostname = False
    cctx.verify_mode = ssl.CERT_NONE
    if offers:
        cctx.set_alpn_protocols([o.decode("latin-1") for o in offers])
    sctx = ssl.SSLContext(ssl.PROTOCOL_TLS_SERVER)
    sctx.load_cert_chain(upstream_pem(w))
    if upstream_alpn:
        sctx.set_alpn_protocols(list(upstream_alpn))
    peers = {c.client: Peer(cctx, False), c.server: Peer(sctx, True)}
    hooks = []
    queue = [events.Start()]

    def pump():
        n = 0
        while queue:
            n += 1
            if n > 300:
                raise AssertionError("runaway")
            ev = queue.pop(0)
            for cmd in list(top.handle_event(ev)):
                if isinstance(cmd, commands.StartHook):
                    hooks.append(cmd.name)
                    if isinstance(cmd, mlayer.NextLayerHook):
                        cmd.data.layer = Sink(cmd.data.context)
                    elif hasattr(w.ta, cmd.name):
                        getattr(w.ta, cmd.name)(*cmd.args())
                    queue.append(events.HookCompleted(cmd, None))
                    if cmd.name == "tls_established_server" and close_mode != "open":
                        # proxy/server.py::handle_connection on EOF: state updated immediately, event queued
                        if close_mode == "half-closed":
                            c.server.state &= ~connection.ConnectionState.CAN_READ
                        else:
                            c.server.state = connection.ConnectionState.CLOSED
                        queue.append(events.ConnectionClosed(c.server))
                elif isinstance(cmd, commands.OpenConnection):
                    cmd.connection.state = connection.ConnectionState.OPEN
                    queue.append(events.OpenConnectionCompleted(cmd, None))
                elif isinstance(cmd, commands.SendData):
                    reply = peers[cmd.connection].step(cmd.data)
                    if reply:
                        queue.append(events.DataReceived(cmd.connection, reply))
                elif isinstance(cmd, (commands.Log, commands.CloseConnection, commands.RequestWakeup)):
                    pass
                else:
                    raise AssertionError(f"unexpected command {cmd!r}")

    pump()
    hello = peers[c.client].step()
    queue.append(events.DataReceived(c.client, hello))
    pump()
    up, cl = peers[c.server], peers[c.client]
    if not (up.done and cl.done):
        ctx.count("pair.incomplete")
        ctx.seen("pair_incomplete", (stack, upstream_alpn, http2, offers, up.done, cl.done))
        return "incomplete"
    # ground truth of "the upstream protocol" = what the upstream peer itself negotiated (nothing -> known: none)
    up_sel = up.obj.selected_alpn_protocol()
    upstream = up_sel.encode("latin-1") if up_sel is not None else b""
    sel = cl.obj.selected_alpn_protocol()
    sel = sel.encode("latin-1") if sel is not None else NONE
    upstream_first = ("tls_established_server" in hooks and "tls_start_client" in hooks
                      and hooks.index("tls_established_server") < hooks.index("tls_start_client"))
    if not upstream_first:
        ctx.count("pair.upstream_not_first")  # the precondition "upstream already known" did not hold: not judged
        return "upstream-not-first"
    ctx.count("pair.oracle")
    if close_mode != "open":
        ctx.count("pair.upstream_closed_after_handshake")
    ctx.count("pair.upstream_negotiated_some" if upstream else "pair.upstream_negotiated_none")
    if sel != NONE:
        ctx.count("pair.client_selected_some")
    eff = offers or ()
    bad = oracle(stack, upstream, http2, eff, sel)
    if bad:
        ctx.violation("pair:" + "+".join(bad), {"stack": stack, "upstream_peer_alpn": list(upstream_alpn), "upstream_negotiated": upstream,
                                                 "upstream_after_handshake": close_mode, "server_state_at_end": str(c.server.state),
                                                 "http2": http2, "offers": list(eff), "client_got": sel,
                                                 "server_alpn_attribute": c.server.alpn, "hooks": hooks})
    ctx.seen("pair_hook_sequences", tuple(hooks))
    return f"up={cls_of(upstream) if upstream else 'none'},{close_mode},client={cls_of(sel) if sel != NONE else NONE}"


def cls_of(p: bytes):
    return p.decode() if p in PROTOS[:5] else "unknown"


def run(ctx):
    w = World()
    conns = {}

    def conn_for(cfg):
        if cfg not in conns:
            conns[cfg] = w.start_client(*cfg)
        return conns[cfg]

    short_offers = [o for o in OFFERS if len(o) <= 2]
    pin_cfgs_hs = [c for c in PIN_CONFIGS if c[1] in (None, b"h2")]  # 60
    base_cfgs = [c for c in CONFIGS if c[3] == ("CLOSED" if c[1] is None else "OPEN")]  # 48, as before the state dimension
    state_cfgs = [c for c in CONFIGS if c not in base_cfgs and c[0] != "swp-outer"]  # other upstream states (outer ignores upstream)
    quick_hs_offers = [None, ()] + [(p,) for p in PROTOS] + [(a, b) for a in (b"h2", b"http/1.1", b"h3", b"x-unknown")
                                                             for b in (b"h2", b"http/1.1", b"h3", b"x-unknown") if a != b]  # 20
    hs_space = [(cfg, o) for cfg in base_cfgs for o in (quick_hs_offers if ctx.tier == "quick" else [None] + OFFERS)]
    hs_space += [(cfg, o) for cfg in state_cfgs for o in (PAIR_CLOSE_QUICK if ctx.tier == "quick" else [None] + short_offers)]
    hs_space += [(cfg, o) for cfg in (pin_cfgs_hs if ctx.tier == "quick" else PIN_CONFIGS)
                 for o in (PAIR_CLOSE_QUICK if ctx.tier == "quick" else [None] + short_offers)]
    n_hs_enum = len(hs_space)
    inner_lists = INNER_QUICK if ctx.tier == "quick" else [None] + short_offers
    hist_space = [(oo, u, h, io) for oo in OUTER_OFFERS for u in UPSTREAMS for h in (True, False) for io in inner_lists]
    if ctx.tier == "quick":
        hist_space = [x for x in hist_space if x[0] in (None, (b"http/1.1",), (b"h2", b"http/1.1"))]
    n_hist = len(hist_space)
    rs_space = [(t, h, o, None) for t in (modes.HttpProxy, modes.HttpUpstreamProxy) for h in (True, False)
                for o in ([None] + (short_offers if ctx.tier == "quick" else OFFERS))]
    rs_space += [(t, h, o, p) for t in (modes.HttpProxy, modes.HttpUpstreamProxy) for h in (True, False) for p in PINS
                 for o in (PAIR_CLIENT_QUICK if ctx.tier == "quick" else [None] + short_offers)]
    n_rs = len(rs_space)
    pair_space = [(st, u, h, o, "open") for st in ("transparent", "regular-inner") for u in UPSTREAM_PEERS for h in (True, False)
                  for o in (PAIR_CLIENT_QUICK if ctx.tier == "quick" else [None] + short_offers)]
    pair_space += [(st, u, h, o, cm) for cm in ("half-closed", "closed") for st in ("transparent", "regular-inner") for u in UPSTREAM_PEERS
                   for h in (True, False) for o in (PAIR_CLOSE_QUICK if ctx.tier == "quick" else PAIR_CLIENT_QUICK)]
    n_pair = len(pair_space)
    n_fixed = N_ENUM + n_hs_enum + n_hist + n_rs + n_pair
    n_total = n_fixed + (ctx.n_cases if ctx.tier == "thorough" else 0)
    try:
        for i in ctx.cases(n=n_total):
            if i < n_fixed and i % ctx.nworkers != ctx.worker and ctx.only_case is None:
                continue
            if i < N_ENUM:
                cfg = ALL_CONFIGS[i // len(OFFERS)]
                offers = OFFERS[i % len(OFFERS)]
                stack, upstream, http2, state, pin = cfg
                conn = conn_for(cfg)
                try:
                    r = tlsconfig.alpn_select_callback(conn, list(offers))
                except Exception as e:  # totality of the callback
                    ctx.violation("callback-raises", {"cfg": cfg, "offers": list(offers), "exc": repr(e)})
                    ctx.case(("cb", cfg, offers), nontrivial=bool(offers))
                    continue
                selected = NONE if r is SSL.NO_OVERLAPPING_PROTOCOLS else r
                judge(ctx, "callback", stack, upstream, http2, offers, selected, state, pin)
                ctx.case(("cb", stack, upstream, state, http2, pin, offers), nontrivial=bool(offers),
                         sample={"leg": "callback", "stack": stack, "upstream": upstream, "upstream_state": state, "http2": http2,
                                 "client_alpn_set_by_addon": pin,
                                 "offers": list(offers), "selected": selected} if i % 997 == 5 else None)
                continue
            r = ctx.rng
            hist = None
            pair = None
            if N_ENUM + n_hs_enum + n_hist + n_rs <= i < n_fixed:
                pair = pair_space[i - N_ENUM - n_hs_enum - n_hist - n_rs]
            elif i >= n_fixed and r.random() < 0.25:
                pool = PROTOS + [bytes(r.choice(b"abcxyz-/.0129") for _ in range(r.randint(1, 12)))]
                ups = tuple(r.choice(pool).decode() for _ in range(r.choice([0, 1, 1, 2, 3])))
                pair = (r.choice(["transparent", "regular-inner"]), ups, r.random() < 0.5, tuple(r.choice(pool) for _ in range(r.randint(1, 5))),
                        r.choice(["open", "half-closed", "closed"]))
            if pair is not None:
                st, u, h, o, cm = pair
                try:
                    outcome = run_pair(ctx, w, st, u, h, o, cm)
                except Exception as e:
                    ctx.violation("pair-raises", {"pair": [st, list(u), h, list(o) if o else o], "exc": repr(e)})
                    outcome = "raises"
                ctx.case(("pair", st, tuple(cls_of(x.encode()) for x in u), h, tuple(cls_of(x) for x in o) if o is not None else None, cm, outcome),
                         nontrivial=bool(o),
                         sample={"leg": "pair", "stack": st, "upstream_peer_alpn": list(u), "upstream_after_handshake": cm, "http2": h,
                                 "offers": list(o) if o else o,
                                 "outcome": outcome} if i % 53 == 3 else None)
                continue
            if N_ENUM + n_hs_enum + n_hist <= i < N_ENUM + n_hs_enum + n_hist + n_rs:
                t, h, o, pin = rs_space[i - N_ENUM - n_hs_enum - n_hist]
                try:
                    outcome = run_realstack(ctx, w, t, h, o, pin)
                except Exception as e:
                    ctx.violation("realstack-raises", {"top": t.__name__, "http2": h, "offers": list(o) if o else o, "exc": repr(e)})
                    outcome = "raises"
                ctx.case(("realstack", t.__name__, h, pin, o), nontrivial=bool(o),
                         sample={"leg": "realstack", "top_layer": t.__name__, "http2": h, "client_alpn_set_by_addon": pin,
                                 "offers": list(o) if o else o, "client_sees": outcome}
                         if i % 41 == 3 else None)
                continue
            if N_ENUM + n_hs_enum <= i < N_ENUM + n_hs_enum + n_hist:
                hist = hist_space[i - N_ENUM - n_hs_enum]
            elif i >= n_fixed and r.random() < 0.3:
                pool = PROTOS + [bytes(r.choice(b"abcxyz-/.0129") for _ in range(r.randint(1, 12)))]
                hist = (r.choice(OUTER_OFFERS + [tuple(r.choice(pool) for _ in range(r.randint(1, 4)))]), r.choice(UPSTREAMS), r.random() < 0.5,
                        tuple(r.choice(pool) for _ in range(r.randint(1, 6))))
            if hist is not None:
                oo, u, h, io = hist
                try:
                    outcome = run_history(ctx, w, oo, u, h, io)
                except Exception as e:
                    ctx.violation("history-raises", {"history": [list(oo) if oo else oo, u, h, list(io) if io else io], "exc": repr(e)})
                    outcome = "raises"
                ctx.case(("hist", tuple(cls_of(o) for o in oo) if oo is not None else None, u, h,
                          tuple(cls_of(o) for o in io) if io is not None else None, outcome), nontrivial=bool(io),
                         sample={"leg": "history", "outer_offers": list(oo) if oo else oo, "upstream": u, "http2": h,
                                 "inner_offers": list(io) if io else io, "outcome": outcome} if i % 97 == 3 else None)
                continue
            if i < N_ENUM + n_hs_enum:
                cfg, offers = hs_space[i - N_ENUM]
            else:
                cfg = r.choice(ALL_CONFIGS)
                pool = PROTOS + [bytes(r.choice(b"abcxyz-/.0129") for _ in range(r.randint(1, 12))) for _ in range(3)]
                offers = tuple(r.choice(pool) for _ in range(r.randint(4, 8)))
            stack, upstream, http2, state, pin = cfg
            conn = w.start_client(*cfg)  # fresh connection object per handshake
            sel, srv = handshake(conn, offers)
            if sel is None:
                ctx.count("handshake.incomplete")
                ctx.case(("hs-incomplete", cfg), nontrivial=False)
                continue
            eff = offers or ()
            judge(ctx, "handshake", stack, upstream, http2, eff, sel, state, pin)
            ctx.count("handshake.client_server_agree")
            if sel != srv:
                ctx.violation("handshake:client-server-disagree", {"cfg": cfg, "offers": list(eff), "client": sel, "server": srv})
            ctx.case(("hs", stack, upstream, state, http2, pin, tuple(cls_of(o) for o in eff)), nontrivial=bool(eff),
                     sample={"leg": "handshake", "stack": stack, "upstream": upstream, "upstream_state": state, "http2": http2,
                             "offers": list(eff), "client_sees": sel} if i % 499 == 3 else None)
        ctx.extra["enumerated_callback_combinations"] = N_ENUM
        ctx.extra["enumerated_handshake_combinations"] = n_hs_enum
        ctx.extra["enumerated_two_handshake_histories"] = n_hist
        ctx.extra["enumerated_realstack_handshakes"] = n_rs
        ctx.extra["enumerated_upstream_first_pairs"] = n_pair
    finally:
        w.close()
