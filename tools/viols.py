#!/usr/bin/env python3
"""Summarise replay witnesses: tools/viols.py C01 [--show N]"""
import json, glob, sys, collections
prop=sys.argv[1]; show=int(sys.argv[3]) if len(sys.argv)>3 else 0
c=collections.Counter(); ex={}
def b(v):
    if isinstance(v,dict) and "__bytes_hex__" in v: return bytes.fromhex(v["__bytes_hex__"])
    if isinstance(v,list): return [b(x) for x in v]
    if isinstance(v,dict): return {k:b(x) for k,x in v.items()}
    return v
for f in sorted(glob.glob(f'/verif/replays/{prop}/*.json')):
    d=json.load(open(f)); k=(d['kind'],d['mechanism']); c[k]+=1; ex.setdefault(k,(f,d))
for k,n in c.items():
    print(n,k, ex[k][0].split('/')[-1])
    if show and not k[1]:
        for kk,v in ex[k][1]["witness"].items():
            v=b(v)
            print("     ",kk,":",str(v)[:show])
