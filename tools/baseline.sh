#!/bin/sh
# Run the repository's baseline suite (guard off) and compare with BASELINE.json's stable_pass list.
OUT=/tmp/vf-baseline-$$.xml
cd /repo && env -u MITMPROXY_VERIF /venv/bin/python -m pytest -q -p no:cacheprovider --timeout=900 --continue-on-collection-errors -n ${N:-8} --junitxml=$OUT >/tmp/vf-baseline-$$.log 2>&1
/venv/bin/python - "$OUT" <<'PY'
import json,sys,xml.etree.ElementTree as ET
base=set(json.load(open('/root/.vp/BASELINE.json'))['stable_pass'])
passed=set(); failed=set()
for tc in ET.parse(sys.argv[1]).getroot().iter('testcase'):
    cls=tc.get('classname'); name=tc.get('name')
    tid=f"{cls}::{name}"
    bad=any(c.tag in('failure','error') for c in tc)
    skipped=any(c.tag=='skipped' for c in tc)
    (failed if bad else passed).add(tid) if not skipped else None
miss=sorted(base-passed)
print(f"baseline stable_pass={len(base)} passed_now={len(passed)} failed_now={len(failed)} baseline_not_passing={len(miss)}")
for m in miss[:40]: print("  NOT PASSING:",m)
PY
rm -f $OUT /tmp/vf-baseline-$$.log
