#!/bin/bash
# tools/seedeval.sh <ID> [seeddir]  -- confirm a seeded change (demo passes without / fails with, related repo tests pass with it),
# then run the property's check against it. Writes /verif/seeded/<ID>/{patch.diff,demo*,notes.md,meta.json}.
ID=$1; SRC=${2:-/tmp/seed-$ID/_seed}; DST=/verif/seeded/${3:-$ID}
mkdir -p $DST; cp $SRC/patch.diff $DST/ 2>/dev/null; cp $SRC/demo* $DST/ 2>/dev/null; cp $SRC/notes.md $DST/ 2>/dev/null
DEMO=$(ls $DST/demo* | head -1)
WT=/tmp/vf-seedeval-$$
git -C /repo worktree add -q --detach $WT HEAD || exit 3
run_demo() { ( cd $WT && if echo "$DEMO" | grep -q test; then PYTHONPATH=$WT timeout 300 /venv/bin/python -m pytest -q -p no:cacheprovider "$DEMO" >/dev/null 2>&1; else PYTHONPATH=$WT timeout 300 /venv/bin/python "$DEMO" >/dev/null 2>&1; fi; echo $?; ) }
D0=$(run_demo)
( cd $WT && git apply --include='mitmproxy/*' $DST/patch.diff ) || { echo "patch does not apply"; git -C /repo worktree remove --force $WT; exit 3; }
D1=$(run_demo)
# related repository tests
TESTS=""
for f in $(cd $WT && git diff --name-only); do
  t="test/$(dirname $f)/test_$(basename $f)"; [ -f "$WT/$t" ] && TESTS="$TESTS $t"
  case $f in mitmproxy/proxy/layers/http/*) TESTS="$TESTS test/mitmproxy/proxy/layers/http";; mitmproxy/proxy/*) TESTS="$TESTS test/mitmproxy/proxy";; esac
done
TR="none"
if [ -n "$TESTS" ]; then ( cd $WT && PYTHONPATH=$WT timeout 1200 /venv/bin/python -m pytest -q -p no:cacheprovider -n 6 $TESTS > /tmp/vf-seedeval-$$.log 2>&1 ); TR=$?; fi
Q=$(cd /verif && VERIF_REPO=$WT VERIF_NO_EVIDENCE=1 ./check $ID --tier quick 2>&1); QC=$(echo "$Q" | grep -c "^VIOLATION")
TC="-"
if [ "$QC" = "0" ]; then T=$(cd /verif && VERIF_REPO=$WT VERIF_NO_EVIDENCE=1 ./check $ID --tier thorough 2>&1); TC=$(echo "$T" | grep -c "^VIOLATION"); fi
FILES=$(cd $WT && git diff --name-only | tr '\n' ' ')
git -C /repo worktree remove --force $WT; rm -f /tmp/vf-seedeval-$$.log
python3 - <<PY
import json
meta={"property":"$ID","files_changed":"$FILES".split(),"demo":"$(basename $DEMO)","demo_exit_without_change":$D0,"demo_exit_with_change":$D1,
"related_repo_tests":"$TESTS".split(),"related_repo_tests_exit_with_change":"$TR",
"check_quick_violation_lines":$QC,"check_thorough_violation_lines":"$TC",
"caught": ($QC>0) or ("$TC" not in ("-","0")),
"ran":["demo on pristine worktree","demo with patch","related repo tests with patch","./check $ID --tier quick (VERIF_REPO=worktree+patch)"]}
json.dump(meta,open("$DST/meta.json","w"),indent=1); print(json.dumps(meta))
PY
echo "$Q" | grep "^VIOLATION" | head -2; echo "$Q" | grep -A1 "^VIOLATION" | grep kind | head -2 | cut -c1-300
