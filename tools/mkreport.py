#!/usr/bin/env python3
"""Regenerate the generated part of DESIGN.md (between the AUTOGEN markers): findings, mutants, seeded changes."""
import glob, json, os, re, subprocess
ROOT = "/verif"
kf = json.load(open(f"{ROOT}/known_findings.json"))["findings"]
out = []
out.append("### 11.4 Findings (generated from known_findings.json by tools/mkreport.py)\n")
fixed = [e for e in kf if e["status"] == "fixed"]
known = [e for e in kf if e["status"] == "known"]
out.append(f"{len(fixed)} mechanisms were repaired by `fix:` commits in /repo ({len({e['commit'] for e in fixed})} commits; each re-ran the related repository tests, "
           f"and `tools/baseline.sh` confirms all 2000 baseline tests still pass); {len(known)} mechanisms are recorded as known findings "
           "(genuine, but the repair is not small/safe, would need a design decision, would require editing a repository test, or lies in a dependency).\n")
out.append("| property | status | commit | mechanism | what fails |\n|---|---|---|---|---|")
for e in sorted(kf, key=lambda e: (e["property"], e["status"], e["mechanism"])):
    what = e["what"].replace("|", "\\|").replace("\n", " ")
    what = re.sub(r"^fixed: property=\S+ \S+ ", "", what)
    out.append(f"| {e['property']} | {e['status']} | {e.get('commit','')} | `{e['mechanism']}` | {what[:260]} |")
out.append("\n### 11.5 Which checks catch which changes\n")
out.append("**Own mutants** (`mutants/<ID>-*.patch`; each was applied to a scratch worktree and the property's *quick* tier reported a VIOLATION; "
           "`tools/mutant.sh <patch> <ID>` re-runs one):\n")
by = {}
for f in sorted(glob.glob(f"{ROOT}/mutants/*.patch")):
    n = os.path.basename(f)[:-6]
    by.setdefault(n.split("-")[0], []).append(n.split("-", 1)[1])
out.append("| check | mutants caught |\n|---|---|")
for k in sorted(by):
    out.append(f"| {k} | {', '.join(by[k])} |")
out.append("\n**Independently seeded changes** (`seeded/<ID>/`: written by fresh sub-agents that saw only the property text and a scratch worktree; "
           "each confirmed by the coordinator: demo passes without / fails with the change, related repository tests pass with it):\n")
out.append("| seed | files changed | what was changed (from the seeder's notes) | caught by | note |\n|---|---|---|---|---|")
for f in sorted(glob.glob(f"{ROOT}/seeded/*/meta.json")):
    m = json.load(open(f))
    tier = "quick" if (m.get("check_quick_violation_lines") or (m.get("caught") and m.get("caught_by"))) else ("thorough" if str(m.get("check_thorough_violation_lines")) not in ("-", "0") else "MISSED")
    note = m.get("note", "")
    sd = os.path.basename(os.path.dirname(f))
    what = ""
    try:
        for ln in open(os.path.join(os.path.dirname(f), "notes.md")):
            ln = ln.strip().lstrip("-*# ").strip()
            if len(ln) > 40 and not ln.lower().startswith("seed"):
                what = ln.replace("|", "/")[:230]
                break
    except OSError:
        pass
    out.append(f"| {sd} | {' '.join(m['files_changed'])} | {what} | {m.get('caught_by', m['property'])} {tier} | {note} |")
out.append("\n### 11.6 Per-check summary (from the check modules and the last committed evidence files)\n")
out.append("| id | engine | level | deciding monitors (REQUIRED counters) | last evidence: tier / evaluations / distinct non-trivial / wall s |\n|---|---|---|---|---|")
import importlib, sys
sys.path.insert(0, ROOT); sys.path.insert(0, "/repo")
for f in sorted(glob.glob(f"{ROOT}/checks/c[0-9]*.py")):
    pid = os.path.basename(f)[:-3].upper()
    try:
        m = importlib.import_module(f"checks.{pid.lower()}")
    except Exception as e:
        continue
    ev = {}
    try:
        ev = json.load(open(f"{ROOT}/evidence/{pid}.json"))
    except Exception:
        pass
    cov = ev.get("coverage", {})
    req = ", ".join(getattr(m, "REQUIRED", [])[:8])
    out.append(f"| {pid} | {getattr(m,'ENGINE','direct')} | {m.LEVEL} | {req} | {ev.get('tier','-')} / {cov.get('evaluations','-')} / {cov.get('distinct_nontrivial','-')} / {ev.get('wall_s','-')} |")
block = "\n".join(out) + "\n"
p = f"{ROOT}/DESIGN.md"
s = open(p).read()
B, E = "<!-- AUTOGEN:BEGIN -->", "<!-- AUTOGEN:END -->"
if B not in s:
    s += f"\n{B}\n{E}\n"
s = s[: s.index(B) + len(B)] + "\n" + block + s[s.index(E):]
open(p, "w").write(s)
print("DESIGN.md updated:", len(fixed), "fixed,", len(known), "known,", sum(len(v) for v in by.values()), "mutants")
