#!/bin/sh
# tools/sweep.sh <tier> <seed> ids...   -- run checks sequentially, print one line each
T=$1; S=$2; shift 2
for p in "$@"; do
  OUT=$(./check $p --tier $T --seed $S 2>&1); RC=$?
  echo "$p rc=$RC $(echo "$OUT" | tail -1 | cut -c1-110)"
  [ $RC -ne 0 ] && echo "$OUT" | grep -E "^(VIOLATION|INCONCLUSIVE)" | head -3
done
