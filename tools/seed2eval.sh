#!/bin/bash
# ROUND=<n> tools/seed2eval.sh ID...  -- evaluate round-n seeds (default 2) from /tmp/seed<n>-ID into seeded/ID-<n>, remove worktree
R=${ROUND:-2}
for p in "$@"; do
  O=$(tools/seedeval.sh $p /tmp/seed$R-$p/_seed $p-$R 2>&1 | grep -o '"check_quick_violation_lines": [0-9]*, "check_thorough_violation_lines": "[^"]*", "caught": [a-z]*\|patch does not apply')
  echo "$p-$R: $O"
  git -C /repo worktree remove --force /tmp/seed$R-$p 2>/dev/null
done
