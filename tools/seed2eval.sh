#!/bin/bash
# tools/seed2eval.sh ID...  -- evaluate round-2 seeds from /tmp/seed2-ID into seeded/ID-2, remove worktree
for p in "$@"; do
  R=$(tools/seedeval.sh $p /tmp/seed2-$p/_seed $p-2 2>&1 | grep -o '"check_quick_violation_lines": [0-9]*, "check_thorough_violation_lines": "[^"]*", "caught": [a-z]*\|patch does not apply')
  echo "$p-2: $R"
  git -C /repo worktree remove --force /tmp/seed2-$p 2>/dev/null
done
