#!/usr/bin/env python3
"""known_findings.json maintenance (coordinator only; never run by checks).
  tools/kf.py fixed <PROP> <commit> <mechanism> "<what failed>"
  tools/kf.py merge <file.json> [mechanism ...]     # add status=known entries (all, or only those named)
"""
import json, sys
P = "/verif/known_findings.json"
d = json.load(open(P)); F = d["findings"]
cmd = sys.argv[1]
if cmd == "fixed":
    prop, commit, mech, what = sys.argv[2:6]
    F[:] = [e for e in F if not (e["property"] == prop and e["mechanism"] == mech)]
    F.append({"status": "fixed", "property": prop, "commit": commit, "mechanism": mech, "what": f"fixed: property={prop} {commit} {what}"})
elif cmd == "merge":
    x = json.load(open(sys.argv[2])); x = x if isinstance(x, list) else x.get("findings", [])
    only = set(sys.argv[3:])
    for e in x:
        if only and e["mechanism"] not in only: continue
        if any(f["property"] == e["property"] and f["mechanism"] == e["mechanism"] for f in F): continue
        F.append({"status": "known", "property": e["property"], "mechanism": e["mechanism"], "what": e["what"]})
        print("added", e["property"], e["mechanism"])
json.dump(d, open(P, "w"), indent=1)
