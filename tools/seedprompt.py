import json,sys
props={json.loads(l)['id']:json.loads(l) for l in open('/verif/properties.jsonl')}
pid=sys.argv[1]; p=props[pid]
wt=sys.argv[2] if len(sys.argv)>2 else f"{wt}"
import glob
prev=""
if len(sys.argv)>2:
    for k,f in enumerate(sorted(glob.glob(f"/verif/seeded/{pid}*/notes.md"))):
        prev+=f"[previous change {k+1}]\n"+open(f).read()[:1300]+"\n"
print(f"""You are testing how robust a verification effort is. You work ONLY inside the scratch git worktree {wt} (a checkout of the mitmproxy repository, Python; run things with /venv/bin/python and PYTHONPATH={wt}, cwd {wt}; the sandbox is offline). Do NOT read or touch /verif or /repo or any other directory; do not commit.

Property that the software is supposed to satisfy:
  Title: {p['title']}
  Statement: {p['statement']}
  Quantifier: {p['quantifier']['text']}

Task: make ONE small, realistic change to the mitmproxy source (under mitmproxy/, not tests) that BREAKS this property while the code still imports and the EXISTING test suite still passes (run the relevant existing tests, e.g. `PYTHONPATH={wt} /venv/bin/python -m pytest -q -p no:cacheprovider -x <relevant test files> -n 4`, and make sure they pass WITH your change). The change should look like a plausible regression a developer could introduce (a refactoring slip, an off-by-one, a dropped condition, a wrong default, two sites that each look fine alone), and it must need something specific to manifest — a particular interleaving, a fault at a particular point, a multi-step sequence of operations, an unusual input — NOT something ordinary use would expose at once.

{("Previous testers already seeded the change(s) described below for this property. Choose a DIFFERENT mechanism: another function, another clause of the property, another trigger (prefer triggers that need an interleaving, a fault at a particular point, or a multi-step history). Previous changes (do NOT repeat them or close variants):" + chr(10) + "-----" + chr(10) + prev + chr(10) + "-----" + chr(10)) if prev else ""}
Deliverables, all inside {wt}/_seed/ :
  1. patch.diff  — `git diff` of your change (source only).
  2. demo.py (or demo_test.py) — a small self-contained program that exits 0/passes on the ORIGINAL code and fails (non-zero exit / assertion) WITH your change, demonstrating the property violation. Verify both directions yourself (revert and re-apply with `git apply -R _seed/patch.diff` and `git apply _seed/patch.diff`; never use `git stash`, its storage is shared with other checkouts).
  3. notes.md — 5-10 lines: what you changed, why the existing tests do not notice, what is needed for the break to manifest, which existing tests you ran.
Leave the worktree with your change APPLIED. Reply with a short summary (what you changed, what triggers it, commands you ran and their results).""")
