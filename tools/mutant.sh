#!/bin/sh
# tools/mutant.sh <patch> <PROP> [check args...]  -- apply patch to a scratch worktree, run the check against it, clean up.
# exit 0 if the check reported a VIOLATION (mutant caught), 1 otherwise.
P="$(readlink -f "$1")"; PROP="$2"; shift 2
WT="/tmp/vf-mut-$$"
git -C /repo worktree add -q --detach "$WT" HEAD || exit 3
( cd "$WT" && git apply "$P" ) || { git -C /repo worktree remove --force "$WT"; echo "PATCH DOES NOT APPLY: $P"; exit 3; }
OUT="$(cd /verif && VERIF_REPO="$WT" VERIF_NO_EVIDENCE=1 ./check "$PROP" "$@" 2>&1)"
git -C /repo worktree remove --force "$WT"
echo "$OUT" | grep -E "^(VIOLATION|INCONCLUSIVE|KNOWN)" | head -5
echo "$OUT" | tail -1 | cut -c1-160
echo "$OUT" | grep -q "^VIOLATION" && { echo "CAUGHT $(basename "$P")"; exit 0; }
echo "MISSED $(basename "$P")"; exit 1
