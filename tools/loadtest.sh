#!/bin/bash
# run all ready quick checks K at a time (default 12) to test robustness of time budgets under load
K=${1:-12}; S=${2:-11}
mkdir -p /tmp/vf-load; rm -f /tmp/vf-load/*
for p in $(cat /verif/tools/ready.txt); do
  ( cd /verif; /usr/bin/time -f "%e" -o /tmp/vf-load/$p.time env VERIF_NO_EVIDENCE=1 ./check $p --tier quick --seed $S > /tmp/vf-load/$p.out 2>&1; echo $? > /tmp/vf-load/$p.rc ) &
  while [ $(jobs -r | wc -l) -ge $K ]; do sleep 0.5; done
done
wait
for p in $(cat /verif/tools/ready.txt); do printf "%s rc=%s wall=%s\n" $p "$(cat /tmp/vf-load/$p.rc)" "$(cat /tmp/vf-load/$p.time)"; done | awk '{print}' | sort -k2 | grep -v "rc=0" ; echo "--- slowest"; for p in $(cat /verif/tools/ready.txt); do printf "%s %s\n" "$(cat /tmp/vf-load/$p.time)" $p; done | sort -rn | head -8
