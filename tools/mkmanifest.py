#!/venv/bin/python
"""Regenerate MANIFEST.json from the check modules' metadata (LEVEL, LEVEL_TEXT, LEVEL_NOTE, TECHNIQUE)."""
import importlib
import json
import subprocess
import sys
from pathlib import Path

ROOT = Path(__file__).resolve().parent.parent
sys.path.insert(0, str(ROOT))
sys.path.insert(0, "/repo")

props = [json.loads(l) for l in (ROOT / "properties.jsonl").read_text().splitlines() if l.strip()]
NA = json.loads((ROOT / "tools" / "not_applicable.json").read_text()) if (ROOT / "tools" / "not_applicable.json").exists() else {}
READY = set((ROOT / "tools" / "ready.txt").read_text().split())  # checks integrated and swept silent by the coordinator
checks, na, engines = [], [], {}
for p in props:
    pid = p["id"]
    f = ROOT / "checks" / f"{pid.lower()}.py"
    if pid in NA or not f.exists() or pid not in READY:
        na.append({"property_id": pid, "reason": NA.get(pid, "check not built yet (work in progress); not claimed")})
        continue
    m = importlib.import_module(f"checks.{pid.lower()}")
    eng_all = getattr(m, "ENGINE", "direct").split("+")
    for e_ in eng_all:
        engines.setdefault(e_, []).append(pid)
    eng = eng_all[0]
    checks.append(
        {
            "property_id": pid,
            "quick_cmd": f"./check {pid} --tier quick",
            "thorough_cmd": f"./check {pid} --tier thorough",
            "evidence_file": f"/verif/evidence/{pid}.json",
            "replay_cmd_template": f"./check {pid} --replay {{path}}",
            "engine": eng,
            "level_claimed": {
                "category": m.LEVEL,
                "text": getattr(m, "LEVEL_TEXT", (m.__doc__ or "").strip().split("\n\n")[0][:900]),
                "design_ref": f"DESIGN.md section 5, {pid}",
            },
            "level_note": getattr(m, "LEVEL_NOTE", "Decides only the executions the workload produced; trusts CPython and the harness' reference implementation named in the module docstring."),
            "technique": getattr(m, "TECHNIQUE", "runtime monitoring: generated workload + oracle on observed behaviour"),
        }
    )
ENG = {
    "direct": ("vf/core.py + checks/", "differential / model-based monitors calling the real functions and addon objects in-process"),
    "sansio": ("vf/sansio.py", "engine A: real proxy layers driven sans-io under a schedule explorer; monitors on commands, hooks and wire bytes"),
    "vloop": ("vf/vloop.py", "engine B: real asyncio ConnectionHandler/ClientPlayback on a virtual-time event loop with in-memory sockets and fault plans (vf/connharness.py probe layer, vf/httphandler.py real HTTP stack, vf/tcphandler.py real TCP layer)"),
    "web": ("vf/webapp.py", "engine E: real tornado mitmweb Application in-process"),
}
hooks_commits = []
manifest = {
    "version": 1,
    "setup_cmd": "/venv/bin/python -c 'import mitmproxy, sys; sys.path.insert(0, \"/verif\"); import vf.core'",
    "hooks": {
        "guard": "MITMPROXY_VERIF",
        "enable": "no in-tree hooks are needed: /venv has /repo installed editable, so ./check runs /repo's working tree directly; monitors attach from the harness (layers yield commands, addons are plain objects). The guard name is reserved and exported by ./check.",
        "baseline_off_cmd": "cd /repo && /venv/bin/python -m pytest -ra -q -p no:cacheprovider --timeout=900 --continue-on-collection-errors",
        "source_commits": hooks_commits,
        "add_only": True,
    },
    "engines": [
        {"name": k, "path": ENG[k][0], "serves_properties": sorted(v), "kind_free_text": ENG[k][1]} for k, v in sorted(engines.items())
    ],
    "checks": checks,
    "not_applicable": na,
    "notes": "All checks are runtime monitors over generated workloads (see DESIGN.md). Exit 0 held / 1 VIOLATION / 2 INCONCLUSIVE (deciding monitor never evaluated or harness error). known_findings.json lists genuine defects (known: reported as KNOWN-FINDING; fixed: repaired by a fix: commit in /repo, suppresses nothing).",
}
(ROOT / "MANIFEST.json").write_text(json.dumps(manifest, indent=1) + "\n")
print(f"checks={len(checks)} not_applicable={len(na)}")
