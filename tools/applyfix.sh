#!/bin/sh
# tools/applyfix.sh <diff> <commit message (must start with "fix:")>
set -e
D="$(readlink -f "$1")"; shift
cd /repo
git diff --quiet || { echo "repo dirty"; exit 2; }
git apply --check --include="mitmproxy/*" "$D" || { echo "DOES NOT APPLY: $D"; exit 3; }
git apply --include="mitmproxy/*" "$D"
git add -A
git commit -q -m "$1"
git log --format='%h %s' -1
