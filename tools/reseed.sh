#!/bin/bash
# tools/reseed.sh <SEEDDIR e.g. C01-2> ...  -- re-run the quick check against an already confirmed seeded change after the check was
# strengthened; updates meta.json (keeps the first evaluation as "first_evaluation").
for S in "$@"; do
  ID=${S%%-*}; D=/verif/seeded/$S
  OUT=$(tools/mutant.sh $D/patch.diff $ID --tier quick --seed 1 2>&1); N=$(echo "$OUT" | grep -c "^VIOLATION"); echo "$OUT" | grep -q "^CAUGHT" && [ "$N" = "0" ] && N=1
  /venv/bin/python - "$D/meta.json" "$N" <<'PY'
import json,sys
p,n=sys.argv[1],int(sys.argv[2]); m=json.load(open(p))
if "first_evaluation" not in m:
    m["first_evaluation"]={k:m[k] for k in ("check_quick_violation_lines","check_thorough_violation_lines","caught")}
m["check_quick_violation_lines"]=n
m["caught"]=n>0
if n>0 and not m["first_evaluation"]["caught"]: m["note"]="missed by the check as first evaluated; caught in quick after the check was strengthened (see DESIGN.md 11.5)"
elif n>0 and m["first_evaluation"]["check_quick_violation_lines"]==0: m["note"]="first caught only by the thorough tier; caught in quick after the check was strengthened"
json.dump(m,open(p,"w"),indent=1); print(p.split("/")[-2], "quick violation lines:", n, "caught:", m["caught"])
PY
done
