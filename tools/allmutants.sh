#!/bin/bash
# tools/allmutants.sh [jobs]  -- run every mutants/*.patch and seeded/*/patch.diff against its check (quick, seed 1); prints one line each
J=${1:-3}
ls mutants/*.patch seeded/*/patch.diff | while read p; do
  case $p in mutants/*) id=$(basename $p | cut -d- -f1);; seeded/*) id=$(basename $(dirname $p) | cut -d- -f1);; esac
  echo "$p $id"
done | xargs -P $J -L 1 bash -c 'r=$(tools/mutant.sh $0 $1 --tier quick --seed 1 2>&1 | tail -1); echo "$1 $0 :: $r"'
